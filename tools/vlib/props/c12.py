"""C12 — a characteristic's value always has its declared type and range."""
import math, struct
from .. import core

ID = "C12"
FAMILY = "charac"
RULE = ("every format (string, bool, float, uint8/16/32, int32, uint64, data, tlv8) x permission sets x declared bounds "
        "(none, min only, max only, both; as found in the catalog) x sequences of 1..6 local / remote / getter-function "
        "updates (and declarations of a narrower range in between) with values from a JSON-like generator: finite numbers of any magnitude and sign (incl. -0, 1e300, "
        "non-integers, > 2^64), NaN/Inf (local only), numeric and non-numeric strings ('NaN', 'Inf', '1e999', '', 'true', "
        "'12', '-3', '1.5'), booleans, nil, arrays, objects, the same composite twice. strconv / platform conversions "
        "are annotated by this Python generator independently of Go. non-trivial = a value whose JSON kind differs "
        "from the format's, or a number outside the declared bounds")
EXTRA_FILES = ("Proofs/CharacProofs.v",)
ASSUMPTIONS = ["strconv.ParseUint/ParseFloat/ParseBool and uint64(float64) are oracles: the theorem quantifies over all their results; the harness annotates cases with Python's independent computation of them",
               "int conversions use amd64 semantics for out-of-range floats (0x8000000000000000)"]
FORMATS = ["string", "bool", "float", "uint8", "uint16", "uint32", "int32", "uint64", "data", "tlv8"]


def fbits(x):
    return struct.unpack("<Q", struct.pack("<d", x))[0]


def f2u(x):
    if x != x or x in (math.inf, -math.inf):
        return 1 << 63
    t = int(x)
    if -(1 << 63) < t < (1 << 64):
        return t % (1 << 64)
    return 1 << 63


def ftok(x):
    return "f:%016x:%d" % (fbits(x), f2u(x))


def parse_uint(s):
    if s.isascii() and s.isdigit() and s != "":
        v = int(s)
        return v if v < (1 << 64) else (1 << 64) - 1
    return 0


def parse_float(s):
    t = s.lower()
    if t in ("nan", "+nan", "-nan"):
        return math.nan if t == "nan" else None
    try:
        if t in ("inf", "+inf", "-inf", "infinity", "+infinity", "-infinity"):
            return float(t)
        if any(c in s for c in " _\t\n") or s == "":
            return 0.0
        return float(s)
    except ValueError:
        return 0.0


def parse_bool(s):
    return s in ("1", "t", "T", "TRUE", "true", "True")


STRINGS = ["9223372036854775807", "9223372036854775808", "9223372036854775296", "", "abc", "NaN", "Inf", "-Inf", "1e999", "true", "false", "1", "0", "12", "255", "256", "-3", "1.5", "70000", "4294967296",
           "18446744073709551615", "18446744073709551616", "t", "T", "True", "0x10", "1e2", "héllo", "\"q\"", "<b>&"]


def stok(s):
    pf = parse_float(s)
    if pf is None:
        pf = 0.0
    return "s:%s:%d:%016x:%d" % (s.encode().hex(), parse_uint(s), fbits(pf), 1 if parse_bool(s) else 0)


NUMS = [0.0, -0.0, 1.0, -1.0, 0.5, 1.5, 2.0, 7.0, 99.9, 100.0, 100.1, 255.0, 256.0, 300.0, -5.5, 65535.0, 65536.0, 4294967295.0, 4294967296.0,
        2147483648.0, -2147483649.0, 9007199254740992.0, 1e19, 1.8446744073709552e19, 2e19, 1e30, -1e30, 1e300, 5e-324, 3.14159]


def gen_val(rng, allow_nonfinite):
    r = rng.random()
    if r < 0.35:
        return ftok(rng.choice(NUMS))
    if r < 0.40 and allow_nonfinite:
        return ftok(rng.choice([math.nan, math.inf, -math.inf]))
    if r < 0.65:
        return stok(rng.choice(STRINGS))
    if r < 0.75:
        return "b:%d" % rng.randrange(2)
    if r < 0.80:
        return "nil"
    if r < 0.88:
        return "i:%d" % rng.choice([0, 1, -1, 7, 100, 101, 255, 256, 70000, -70000, 2 ** 31, 2 ** 40])
    return "%s:%d" % (rng.choice("oa"), rng.randrange(3))


_ctor_tbl = None


def ctor_table():
    """initial state of every catalog constructor (dumped from the real objects) + the updateOnSameValue flag (translator)"""
    global _ctor_tbl
    if _ctor_tbl is None:
        import os, re, subprocess
        from . import c15
        chars, _ = c15.names()
        inp = "".join("%s dump %s\n" % (n, n) for n in chars)
        out = subprocess.run([os.path.join(core.BUILD, "hcdrv"), "charac"], input=inp.encode(), stdout=subprocess.PIPE, timeout=120).stdout.decode()
        gen = open(os.path.join(core.COQ, "Gen", "CatalogGen.v")).read()
        same = set()
        for m in re.finditer(r"mkCC \[([0-9; ]+)\].* (true|false);?$", gen, flags=re.M):
            if m.group(2) == "true":
                same.add(bytes(int(x) for x in m.group(1).split(";")).decode())
        _ctor_tbl = {}
        for l in out.splitlines():
            t = l.split(" ")
            if len(t) == 6:
                perms = t[2] + ("S" if t[0] in same else "")
                _ctor_tbl[t[0]] = (t[1], perms, t[3], t[4], t[5])
    return _ctor_tbl


def gen_ctor_cases(rng, per_ctor):
    cases = []
    for name, (f, perms, mn, mx, init) in sorted(ctor_table().items()):
        for _ in range(per_ctor):
            ops = []
            for _ in range(rng.randrange(1, 6)):
                k = rng.random()
                # a value equal to the current one is the interesting case for updateOnSameValue / permission checks
                v = init if (k < 0.25 and init != "nil") else gen_val(rng, False)
                if v.startswith("f:") and v.count(":") == 1:
                    import struct
                    v = ftok(struct.unpack("<d", struct.pack("<Q", int(v[2:], 16)))[0])
                if v.startswith("s:") and v.count(":") == 1:
                    v = stok(bytes.fromhex(v[2:]).decode("utf-8", "replace"))
                if k < 0.6:
                    ops.append("R:%d:%s" % (rng.randrange(1, 3), v))
                elif k < 0.9:
                    ops.append("L:" + v)
                else:
                    ops.append("GR:%d:%s" % (rng.randrange(1, 3), v))
            cases.append({"id": "cc%d" % len(cases), "kind": "ctor/" + f,
                          "line": "cc %s %s %s %s %s %s %s" % (name, f, perms, mn, mx, init, " ".join(ops))})
    return cases


BOUNDARY_INTS = [-1, 0, 1, 2 ** 31 - 1, 2 ** 31, 2 ** 32, 2 ** 53, 2 ** 63 - 513, 2 ** 63 - 1, -(2 ** 63)]
BOUNDARY_FLOATS = [-1.0, 0.0, 0.5, 255.5, 4294967296.0, 9007199254740993.0, 9.2233720368547748e18, 9.223372036854775807e18, 1.8446744073709552e19, 1e19, 1e300, -1e300, 5e-324]
BOUNDARY_STRS = ["9223372036854775807", "9223372036854775808", "18446744073709551615", "18446744073709551616", "-1", "1e999", "-1e999", "Inf", "-Infinity", "NaN", "0x7fffffffffffffff", "1e19"]


def gen_boundary_cases(rng):
    """one case per numeric constructor: values at the edges of the Go integer / float types and of its own bounds"""
    cases = []
    for name, (f, perms, mn, mx, init) in sorted(ctor_table().items()):
        if f in ("string", "bool", "tlv8", "data"):
            continue
        vals = [ftok(x) for x in BOUNDARY_FLOATS] + ["i:%d" % x for x in BOUNDARY_INTS] + [stok(x) for x in BOUNDARY_STRS]
        for b in (mn, mx):
            if b.startswith("i:"):
                z = int(b[2:])
                vals += [ftok(float(z - 1)), ftok(float(z + 1)), "i:%d" % (z - 1), "i:%d" % (z + 1)]
            if b.startswith("f:"):
                import struct
                x = struct.unpack("<d", struct.pack("<Q", int(b[2:], 16)))[0]
                vals += [ftok(x - 0.5), ftok(x + 0.5), ftok(x)]
        rng.shuffle(vals)
        for k in range(0, len(vals), 8):
            ops = [("L:" + v) if rng.random() < 0.5 else ("R:1:" + v) for v in vals[k:k + 8]]
            cases.append({"id": "cb%d" % len(cases), "kind": "boundary/" + f,
                          "line": "cc %s %s %s %s %s %s %s" % (name, f, perms, mn, mx, init, " ".join(ops))})
    return cases


def gen(rng, tier):
    cases = gen_ctor_cases(rng, 3 if tier == "quick" else 60) + gen_boundary_cases(rng)
    n = 60 if tier == "quick" else 1500
    for f in FORMATS:
        for _ in range(n):
            perms = rng.choice(["rwe", "rwe", "re", "r", "w", "rw"])
            mn = mx = "-"
            init = "nil"
            if f == "float":
                lo, hi = rng.choice([(0.0, 100.0), (-270.0, 100.0), (0.0, 1.0), (10.0, 38.0), (None, None), (None, None)])
                if lo is not None:
                    k = rng.random()
                    mn = "f:%016x" % fbits(lo) if k < 0.8 else "-"
                    mx = "f:%016x" % fbits(hi) if k > 0.2 or k >= 0.8 else "-"
                if "r" in perms:
                    base = lo if (mn != "-") else 0.0
                    init = "f:%016x" % fbits(base)
            elif f in ("uint8", "uint16", "uint32", "int32", "uint64"):
                b = rng.choice([(0, 100), (0, 1), (0, 255), (1, 3), (-90, 90), None, None])
                if b:
                    k = rng.random()
                    mn = "i:%d" % b[0] if k < 0.8 else "-"
                    mx = "i:%d" % b[1] if k > 0.2 else "-"
                if "r" in perms:
                    init = "i:%d" % (b[0] if (b and mn != "-") else 0)
            elif f == "bool":
                if "r" in perms:
                    init = "b:0"
            else:
                if "r" in perms:
                    init = "s:" + b"init".hex()
            ops = []
            comp = None
            for _ in range(rng.randrange(1, 7)):
                k = rng.random()
                if k < 0.45:
                    v = gen_val(rng, False)
                    if v[0] in "oa" and rng.random() < 0.5 and comp:
                        v = comp
                    if v[0] in "oa":
                        comp = v
                    ops.append("R:%d:%s" % (rng.randrange(1, 3), v))
                elif k < 0.8:
                    ops.append("L:" + gen_val(rng, True))
                elif k < 0.9:
                    ops.append("G:" + gen_val(rng, True))
                else:
                    ops.append("GR:%d:%s" % (rng.randrange(1, 3), gen_val(rng, True)))
            if mx != "-" and f != "float" and rng.random() < 0.5:
                # an application-declared step that does not divide the range, then writes at / beyond the maximum
                ops.insert(0, "ST:i:%d" % rng.choice([2, 3, 7, 8, 100]))
                top = int(mx[2:])
                ops += ["R:1:i:%d" % top, "L:i:%d" % (top - 1), "R:2:i:%d" % (top + 5)]
            if f == "float" and mn != "-" and mx != "-" and rng.random() < 0.4:
                # the application declares a narrower range after the first updates (as accessory.NewThermostat does), then
                # values inside the old range but outside the new one arrive
                lo, hi = [struct.unpack("<d", struct.pack("<Q", int(x[2:], 16)))[0] for x in (mn, mx)]
                nlo, nhi = lo + (hi - lo) / 4, hi - (hi - lo) / 4
                at = rng.randrange(0, len(ops) + 1)
                ops.insert(at, "B:f:%016x,f:%016x" % (fbits(nlo), fbits(nhi)))
                ops += ["R:1:" + ftok(hi), "L:" + ftok(lo), "R:2:" + ftok((nhi + hi) / 2), "GR:1:" + ftok((lo + nlo) / 2)]
            elif f not in ("float", "bool", "string", "data", "tlv8") and rng.random() < 0.4:
                lo, hi = (int(mn[2:]) if mn != "-" else 0), (int(mx[2:]) if mx != "-" else 200)
                nlo, nhi = lo + max(1, (hi - lo) // 4), hi - max(1, (hi - lo) // 4)
                if nlo <= nhi:
                    at = rng.randrange(0, len(ops) + 1)
                    ops.insert(at, "B:i:%d,i:%d" % (nlo, nhi))
                    ops += ["R:1:i:%d" % hi, "L:i:%d" % lo, "R:2:i:%d" % (nhi + 1), "G:i:%d" % (nlo - 1)]
            cases.append({"id": "ch%d" % len(cases), "kind": f,
                          "line": "ch %s %s %s %s %s %s" % (f, perms, mn, mx, init, " ".join(ops))})
    return cases


KIND = {"string": "s", "data": "s", "tlv8": "s", "bool": "b", "float": "f"}


def nontrivial(c):
    t = c["line"].split(" ")
    if t[0] == "cc":
        t = t[1:]
    want = KIND.get(t[1], "i")
    for op in t[6:]:
        v = op.split(":", 2)[-1] if op[0] in "RG" and op[1] in ":R" else op.split(":", 1)[1]
        if not v.startswith(want):
            return True
    return False


def outcome_class(c, obs):
    if "panic" in obs.split(" cbs=")[0]:
        return c["kind"] + "/panic"
    return c["kind"] + ("/getter-panic" if "getter=panic" in obs else "") + ("/json-err" if "json=err" in obs else "") or c["kind"]


def oracle(c, obs):
    if obs.startswith("DRIVER-DIED") or obs == "NO-OUTPUT":
        return "driver failure " + obs[:80]
    t = c["line"].split(" ")
    if t[0] == "cc":
        t = t[1:]
    f, mn, mx = t[1], t[3], t[4]
    head = obs.split(" cbs=")[0].split(" ")
    want = KIND.get(f, "i")
    prev = t[5]
    for i, v in enumerate(head):
        op = t[6 + i] if 6 + i < len(t) else ""
        if op.startswith("B:"):
            # the range is declared again: the stored value is left alone
            mn, mx = op[2:].split(",")
            if v != prev:
                return "declaring the range again (operation #%d) changed the stored value from %s to %s" % (i, prev[:40], v[:40])
            continue
        was, prev = prev, v.split("!")[0]
        if v == was and "!" not in v:
            continue      # nothing stored by this operation
        if "!" in v:
            # the driver compares what a getter call hands out (with the application's get callback installed) with the stored value
            if "!getterpanic" in v:
                return "the typed getter panics while the application's get callback is installed (operation #%d %s)" % (i, t[6 + i][:60])
            return "a getter call handed out %s, the stored (converted, clamped) value is %s (operation #%d %s)" % (v.split("!ret=")[1][:40], v.split("!")[0][:40], i, t[6 + i][:60])
        if v == "panic":
            return "update #%d (%s) panics" % (i, t[6 + i][:60])
        if v == "nil":
            continue
        if not v.startswith(want + ":"):
            return "after update #%d (%s) the stored value %s does not have the type of format %s" % (i, t[6 + i][:60], v[:40], f)
        if want == "i":
            z = int(v[2:])
            if mn != "-" and z < int(mn[2:]) or mx != "-" and z > int(mx[2:]):
                return "after update #%d the stored value %d is outside the declared bounds [%s, %s]" % (i, z, mn, mx)
        if want == "f":
            x = struct.unpack("<d", struct.pack("<Q", int(v[2:], 16)))[0]
            if x != x or x in (math.inf, -math.inf):
                return "after update #%d (%s) the stored float is not finite" % (i, t[6 + i][:60])
            lo = struct.unpack("<d", struct.pack("<Q", int(mn[2:], 16)))[0] if mn != "-" else None
            hi = struct.unpack("<d", struct.pack("<Q", int(mx[2:], 16)))[0] if mx != "-" else None
            if lo is not None and x < lo or hi is not None and x > hi:
                return "after update #%d the stored value %r is outside the declared bounds" % (i, x)
    if "getter=panic" in obs:
        return "the typed getter panics on the stored value"
    if "json=err" in obs:
        return "the characteristic no longer encodes as JSON"
    return None


def classify(c, obs, why):
    return None


def run(res, a):
    import json, os, sys
    mod = sys.modules[__name__]
    res.rule = RULE + ("; additionally (implementation side): every characteristic with a declared range inside the accessories the 11 accessory "
                       "constructors return (several argument sets) is given values far beyond both bounds")
    res.assumptions = list(ASSUMPTIONS)
    core.build_everything(res, ID, extra_files=EXTRA_FILES)
    if a.replay:
        rep = json.load(open(a.replay))
        if rep["case"] != "accessories":
            core.run_correspondence(res, FAMILY, [{"id": "replay", "line": rep["case"], "kind": "replay"}], mod)
            return
    else:
        core.run_correspondence(res, FAMILY, core.load_corpus(FAMILY) + gen(core.rng_for(ID, res.seed), a.tier), mod)
    # the declared range must be in force on the objects applications actually get: the accessory constructors narrow ranges
    # after the characteristic constructors ran
    o = core.shard_run(os.path.join(core.BUILD, "hcdrv"), "catalog", ["acc accessories"]).get("acc", "NO-OUTPUT")
    res.cases += 1
    res.count("kind:accessory-constructors")
    bad = [t for t in o.split(" ") if "!unclamped" in t]
    # ... and what the constructor left stored lies within the range it declared (<type>=<value>/<min>/<max>)
    for t in o.split(" "):
        f = t.split(":")
        for e in (f[4].split(",") if len(f) > 5 else []):
            if "=" not in e or "!" in e:
                continue
            try:
                v, mn, mx = [None if x in ("-", "nil", "") or x.startswith("?") else float(x.rstrip("if")) for x in e.split("=", 1)[1].split("/")]
            except ValueError:
                continue
            if v is not None and ((mn is not None and v < mn) or (mx is not None and v > mx)):
                bad.append("%s:%s,!unclamped(%s_stored_in_a_range_declared_%s..%s)" % (f[0], e.split("=")[0], v, mn, mx))
    if bad or o in ("NO-OUTPUT", "panic"):
        res.violations.append(("accessories", {"property": ID, "family": "catalog", "seed": res.seed, "case": "accessories", "implementation_observed": (bad[0] if bad else o)[:300],
                                               "required": "a characteristic inside a constructed accessory stores a value outside its declared range: " + (bad[0].split(":")[0] + " " + bad[0].split(",")[-1] if bad else o)[:200].replace("_", " "),
                                               "failing_input_found": True, "replay": "python3 tools/check.py C12 --replay <this file>"}))
    res.obligations.append(("implementation-side run: ranges in force inside the constructed accessories", not bad, "%d accessories" % len(o.split(" "))))
