"""C05 — any alteration of the encrypted stream is detected."""
import json
from .. import core
from . import c06

ID = "C05"
RULE = ("pass 1: honest streams sealed by the reference framer (x/crypto) and by the Gallina model for random secrets "
        "and 1-4 messages of 0..3 frames; pass 2: the receive loop of hc's session runs over altered streams: EVERY "
        "single-bit flip of streams of <= 3 frames of <= 40 bytes (bounded-exhaustive for the sampled streams), "
        "truncation at every byte offset, every deletion / duplication / adjacent swap of frames, replay of the "
        "whole stream, reflection of the receiver's own frames, frames of another session, random garbage; pass 3: the same "
        "kinds of alteration through hap.Connection.Read over a scripted socket (whole stream in one segment so that later frames "
        "are already buffered, 37-byte segments, two segments; caller buffers of 4096 and 7 bytes; the caller keeps reading after "
        "an error). "
        "non-trivial = the alteration touches the stream (not the identity) ")
EXTRA_FILES = ("Proofs/FramingProofs.v", "Base/ChaChaPolyProofs.v", "Proofs/ConnAdvProofs.v")
ASSUMPTIONS = ["no forgery event: the AEAD's open never accepts a (nonce, aad, ciphertext, tag) the key holder did not seal (INT-CTXT of ChaCha20-Poly1305); stated as the left disjunct of C05_prefix_or_forgery, not proved",
               "HKDF output under different info labels differs (key separation is proved for the labels, assumed for the derived keys)"]


def rb(rng, n):
    return bytes(rng.getrandbits(8) for _ in range(n))


def frames_of(wire):
    out, pos = [], 0
    while pos < len(wire):
        n = wire[pos] | wire[pos + 1] << 8
        out.append(wire[pos:pos + 2 + n + 16])
        pos += 2 + n + 16
    return out


def chunks_of(msgs):
    out = []
    for m in msgs:
        for i in range(0, len(m), 1024):
            out.append(m[i:i + 1024])
    return out


def run(res, a):
    me = __import__(__name__, fromlist=["x"])
    res.rule = RULE
    res.assumptions = ASSUMPTIONS
    core.build_everything(res, ID, extra_files=EXTRA_FILES)
    res.trusted += c06.TRUSTED
    rng = core.rng_for(ID, res.seed)
    quick = a.tier == "quick"
    if a.replay:
        rep = json.load(open(a.replay))
        c = {"id": "replay", "line": rep["case"], "kind": "replay", "meta": rep.get("meta"), "stream": rep.get("stream", "")}
        if rep["case"].startswith("pm ") or rep["case"].startswith("he "):
            from . import plainprops
            core.run_correspondence(res, "plain", [c], plainprops, corr_name=plainprops.CORR)
            return
        if rep["case"].startswith("pf "):
            import os
            o = core.shard_run(os.path.join(core.BUILD, "hcdrv"), "conn", ["replay " + rep["case"]]).get("replay", "NO-OUTPUT")
            res.cases += 1
            if o != "ok":
                res.violations.append(("plain-framing", dict(rep, implementation_observed=o[:300])))
            return
        if rep["case"].startswith("xdec ") or rep["case"].startswith("sk "):
            import os
            fam = "frame" if rep["case"].startswith("xdec ") else "stack"
            o = core.shard_run(os.path.join(core.BUILD, "hcdrv"), fam, ["replay " + rep["case"]]).get("replay", "NO-OUTPUT")
            t = rep["case"].split(" ")
            okk = (o == "r1=%s r2=%s" % (t[2], t[3])) if fam == "frame" else (o.split(" ")[-1].startswith("INJ=none") if " INJ:" in rep["case"] else o.endswith("VR=fresh"))
            res.cases += 1
            if not okk:
                res.violations.append(("xsession", dict(rep, implementation_observed=o[:300])))
            return
        if rep.get("family") == "conn":
            c["kind"] = "conn/replay"
            core.run_correspondence(res, "conn", [c], ConnLevel)
        else:
            core.run_correspondence(res, "frame", [c], me)
        return
    # ---- pass 1: honest streams ----
    streams = []
    nsmall, nbig = (6, 6) if quick else (40, 60)
    for i in range(nsmall + nbig):
        shared = rb(rng, 32)
        role = rng.choice(["cli", "cli", "srv"])       # whose write direction; the receiver is the peer
        if i < nsmall:
            msgs = [rb(rng, rng.randrange(0, 41)) for _ in range(rng.randrange(1, 4))]
        else:
            msgs = [rb(rng, rng.choice([0, 1, 30, 1000, 1024, 1025, 2048, 2100])) for _ in range(rng.randrange(1, 5))]
        if not any(msgs):
            msgs.append(b"x")
        streams.append((shared, role, msgs, i < nsmall))
    p1 = [{"id": "seal%d" % i, "line": "seal %s %s %s" % (s.hex(), r, " ".join(m.hex() for m in ms)), "kind": "seal"}
          for i, (s, r, ms, _) in enumerate(streams)]

    class P1:
        @staticmethod
        def oracle(c, obs):
            return None if obs.startswith("w0=") or obs == "" else "reference framer failed: " + obs[:60]

        @staticmethod
        def nontrivial(c):
            return True
    go1, mo1 = core.run_correspondence(res, "frame", p1, P1, corr_name="correspondence Gallina sealing <-> x/crypto reference framer")
    # ---- pass 2: alterations ----
    cases = []
    peer = {"srv": "cli", "cli": "srv"}

    def add(kind, shared, recv_role, stream, honest, chunks, note, segs=None):
        if segs is None:
            line = "dec %s %s %s" % (shared.hex(), recv_role, stream.hex())
        else:
            line = "decs %s %s %s" % (shared.hex(), recv_role, " ".join(x.hex() for x in segs if x))
        cases.append({"id": "%s%d" % (kind, len(cases)), "line": line, "stream": stream.hex(),
                      "kind": kind, "meta": {"honest": honest.hex(), "chunks": [c.hex() for c in chunks], "note": note}})

    for i, (shared, role, msgs, small) in enumerate(streams):
        obs = go1.get("seal%d" % i, "")
        if obs != mo1.get("seal%d" % i, ""):
            continue
        wire = b"".join(bytes.fromhex(t.split("=", 1)[1]) for t in obs.split(" ") if "=" in t)
        fr = frames_of(wire)
        ch = chunks_of(msgs)
        rr = peer[role]
        add("identity", shared, rr, wire, wire, ch, "unaltered")
        if small:
            for bit in range(len(wire) * 8):
                b = bytearray(wire)
                b[bit // 8] ^= 1 << (bit % 8)
                add("bitflip", shared, rr, bytes(b), wire, ch, "bit %d" % bit)
            for cut in range(len(wire)):
                add("truncate", shared, rr, wire[:cut], wire, ch, "cut %d" % cut)
        else:
            for _ in range(30 if quick else 300):
                bit = rng.randrange(len(wire) * 8)
                b = bytearray(wire)
                b[bit // 8] ^= 1 << (bit % 8)
                add("bitflip", shared, rr, bytes(b), wire, ch, "bit %d" % bit)
            for _ in range(15 if quick else 100):
                cut = rng.randrange(len(wire))
                add("truncate", shared, rr, wire[:cut], wire, ch, "cut %d" % cut)
        # every bit of every frame's length field (full frames included: a length above the frame size must not be "normalised")
        off = 0
        for k in range(len(fr)):
            for bit in range(16):
                b = bytearray(wire)
                b[off + bit // 8] ^= 1 << (bit % 8)
                add("lenflip", shared, rr, bytes(b), wire, ch, "bit %d (length field of frame %d)" % (off * 8 + bit, k))
            off += len(fr[k])
        for k in range(len(fr)):
            add("drop", shared, rr, b"".join(fr[:k] + fr[k + 1:]), wire, ch, "drop frame %d" % k)
            add("dup", shared, rr, b"".join(fr[:k + 1] + fr[k:]), wire, ch, "duplicate frame %d" % k)
            if k + 1 < len(fr):
                sw = list(fr)
                sw[k], sw[k + 1] = sw[k + 1], sw[k]
                add("swap", shared, rr, b"".join(sw), wire, ch, "swap frames %d,%d" % (k, k + 1))
        add("replay", shared, rr, wire + wire, wire, ch, "whole stream twice")
        # the same alterations delivered frame by frame, each frame in its own reader (as the connection does)
        add("identity-segs", shared, rr, wire, wire, ch, "unaltered, one reader per frame", segs=fr)
        add("replay-segs", shared, rr, wire + wire, wire, ch, "whole stream twice, one reader per frame", segs=fr + fr)
        for k in range(len(fr)):
            add("replay1-segs", shared, rr, b"".join(fr[:k + 1]) + fr[k], wire, ch, "frame %d replayed right after itself, one reader per frame" % k, segs=fr[:k + 1] + [fr[k]])
            add("drop-segs", shared, rr, b"".join(fr[:k] + fr[k + 1:]), wire, ch, "drop frame %d, one reader per frame" % k, segs=fr[:k] + fr[k + 1:])
            forged = b"\x00\x00" + rb(rng, 16)
            add("forge-empty", shared, rr, b"".join(fr[:k]) + forged + b"".join(fr[k:]), wire, ch, "forged empty frame inserted before frame %d" % k)
            add("forge-empty-repl", shared, rr, b"".join(fr[:k]) + forged + b"".join(fr[k + 1:]), wire, ch, "frame %d replaced by a forged empty frame" % k)
            add("forge-empty-segs", shared, rr, b"".join(fr[:k]) + forged + b"".join(fr[k + 1:]), wire, ch, "frame %d replaced by a forged empty frame, one reader per frame" % k, segs=fr[:k] + [forged] + fr[k + 1:])
            n = rng.choice([1, 2, 16, 17])
            forged2 = bytes([n, 0]) + rb(rng, n + 16)
            add("forge-short", shared, rr, b"".join(fr[:k]) + forged2 + b"".join(fr[k:]), wire, ch, "forged %d-byte frame inserted before frame %d" % (n, k))
        add("forge-empty", shared, rr, wire + b"\x00\x00" + rb(rng, 16), wire, ch, "forged empty frame appended")
        add("reflect", shared, role, wire, b"", [], "the sender's own frames fed back to the sender")
        other = rb(rng, 32)
        add("xsession", other, rr, wire, b"", [], "frames of another session")
        add("garbage", shared, rr, rb(rng, rng.randrange(1, 60)), wire, ch, "random bytes")
        add("append", shared, rr, wire + rb(rng, rng.randrange(1, 30)), wire, ch, "garbage after the stream")
    core.run_correspondence(res, "frame", cases, me)
    res.extra["exhaustive_bitflips_for_small_streams"] = True
    # ---- pass 2b: frame counters far from zero: a frame sealed at counter n is accepted at counter n only — not at
    # n + 2^32, n - 2^32, n + 1, n - 1 (replay of frames recorded earlier / later) ----
    rec, k2 = [], 0
    for base in [0, 5, 2 ** 32 - 1, 2 ** 32, 2 ** 33 + 7, 2 ** 63 + 1]:
        shared = rb(rng, 32)
        msgs = [rb(rng, rng.choice([3, 40, 1024, 1100])) for _ in range(rng.randrange(1, 3))]
        rec.append((shared, base, msgs))
    p2 = [{"id": "sealc%d" % i, "line": "sealc %s cli %d %s" % (s_.hex(), b_, " ".join(m.hex() for m in ms)), "kind": "seal"}
          for i, (s_, b_, ms) in enumerate(rec)]
    go2, mo2 = core.run_correspondence(res, "frame", p2, P1, corr_name="correspondence Gallina sealing <-> x/crypto reference framer at large counters")
    cc2 = []
    for i, (shared, base, msgs) in enumerate(rec):
        obs = go2.get("sealc%d" % i, "")
        if obs != mo2.get("sealc%d" % i, "") or not obs:
            continue
        wire = b"".join(bytes.fromhex(t.split("=", 1)[1]) for t in obs.split(" ") if "=" in t)
        ch = chunks_of(msgs)
        for delta in [0, 1, -1, 2 ** 32, -2 ** 32, 2 ** 33, 2 ** 63]:
            at = (base + delta) % 2 ** 64
            if base + delta < 0:
                continue
            cc2.append({"id": "ctr%d" % len(cc2), "kind": "counter", "line": "decc %s srv %d %s" % (shared.hex(), at, wire.hex()),
                        "stream": wire.hex() if delta == 0 else "", "meta": {"honest": wire.hex() if delta == 0 else "ff", "chunks": [c.hex() for c in ch] if delta == 0 else [],
                                                                                 "note": "stream sealed from counter %d received at counter %d" % (base, at)}})
    core.run_correspondence(res, "frame", cc2, Counter, corr_name="correspondence model<->code, family frame (receive counters far from zero)")
    # ---- pass 3: the same alterations through hap.Connection.Read (the accessory's read path), where frames that
    # follow the altered one may already be buffered; the caller keeps reading after an error ----
    ccases = []
    for i, (shared, role, msgs, small) in enumerate(streams):
        if role != "cli":
            continue
        obs = go1.get("seal%d" % i, "")
        if obs != mo1.get("seal%d" % i, "") or not obs:
            continue
        wire = b"".join(bytes.fromhex(t.split("=", 1)[1]) for t in obs.split(" ") if "=" in t)
        fr = frames_of(wire)
        ch = chunks_of(msgs)
        alts = [("identity", wire)]
        for k in range(len(fr)):
            b = bytearray(fr[k])
            bit = rng.randrange(len(b) * 8)
            b[bit // 8] ^= 1 << (bit % 8)
            alts.append(("bitflip frame %d" % k, b"".join(fr[:k]) + bytes(b) + b"".join(fr[k + 1:])))
            alts.append(("drop frame %d" % k, b"".join(fr[:k] + fr[k + 1:])))
            alts.append(("duplicate frame %d" % k, b"".join(fr[:k + 1] + fr[k:])))
            forged = b"\x00\x00" + rb(rng, 16)
            alts.append(("frame %d replaced by a forged empty frame" % k, b"".join(fr[:k]) + forged + b"".join(fr[k + 1:])))
            if k + 1 < len(fr):
                sw = list(fr)
                sw[k], sw[k + 1] = sw[k + 1], sw[k]
                alts.append(("swap frames %d,%d" % (k, k + 1), b"".join(sw)))
        alts.append(("garbage after the stream", wire + rb(rng, 40)))
        if len(alts) > 14 and quick:
            alts = [alts[0]] + rng.sample(alts[1:], 13)
        for note, stream in alts:
            total = sum(len(x) for x in ch)
            for segname, segs in (("one segment", [stream]), ("one segment per 37 bytes", [stream[o:o + 37] for o in range(0, len(stream), 37)]),
                                  ("two segments", [stream[:len(stream) // 2], stream[len(stream) // 2:]])):
                for bsz in (4096, 7):
                    nreads = total // bsz + len(fr) + len(segs) + 12
                    if nreads > 2500:
                        continue
                    evs = ",".join("D:" + x.hex() for x in segs if x) or "-"
                    ccases.append({"id": "cc%d" % len(ccases), "kind": "conn/" + note.split(" frame")[0].split(" ")[0],
                                   "line": "cr %s %s %s" % (shared.hex(), evs, ",".join([str(bsz)] * nreads)), "stream": stream.hex(),
                                   "meta": {"honest": wire.hex(), "chunks": [c.hex() for c in ch], "note": note + ", " + segname + ", buffer %d" % bsz}})
    core.run_correspondence(res, "conn", ccases, ConnLevel, corr_name="correspondence model<->code, family conn (hap.Connection.Read over altered streams)")
    # ---- pass 4 (implementation side only): two receiving sessions interleaved, and replays ACROSS sessions at the level
    # where sessions are made: a recorded pair-verify exchange (with its frames) offered again on later connections ----
    import os
    xs = [{"id": "x%d" % i, "kind": "two-sessions", "line": "xdec %s %s %s" % (rb(rng, 32).hex(), rb(rng, a_).hex(), rb(rng, b_).hex())}
          for i, (a_, b_) in enumerate([(40, 40), (40, 9), (9, 700), (1024, 1024), (1500, 30), (3, 2000)] * (1 if quick else 6))]
    obs = core.shard_run(os.path.join(core.BUILD, "hcdrv"), "frame", ["%s %s" % (c["id"], c["line"]) for c in xs])
    vr = [{"id": "vr%d" % i, "kind": "replay-across-sessions", "line": "sk nacc=0 N:h S:h:c0:ok VR:c0:%d" % (40 if quick else 300)} for i in range(1 if quick else 3)]
    obs.update(core.shard_run(os.path.join(core.BUILD, "hcdrv"), "stack", ["%s %s" % (c["id"], c["line"]) for c in vr]))
    bad = 0
    for c in xs + vr:
        o = obs.get(c["id"], "NO-OUTPUT")
        res.cases += 1
        h = core.sha(c["line"])
        res.distinct.add(h)
        res.nontrivial.add(h)
        res.count("kind:" + c["kind"])
        why = None
        if c["kind"] == "two-sessions":
            t = c["line"].split(" ")
            if o != "r1=%s r2=%s" % (t[2], t[3]):
                why = "two sessions receiving at the same time: a caller that had read one byte of its frame when the other session decrypted did not get exactly what its own peer sent"
        elif not o.endswith("VR=fresh"):
            why = "a recorded connection (pair-verify start, finish and frames) offered again on a later connection was accepted: " + o.split(" ")[-1]
        if why:
            bad += 1
            res.violations.append(("xsession", {"property": ID, "family": "frame" if c["kind"] == "two-sessions" else "stack", "seed": res.seed, "case": c["line"],
                                                "implementation_observed": o[:300], "required": why, "failing_input_found": True,
                                                "replay": "python3 tools/check.py C05 --replay <this file>"}))
    res.obligations.append(("implementation-side runs: two receiving sessions interleaved; a recorded exchange replayed on later connections", bad == 0, "%d runs, %d failing" % (len(xs) + len(vr), bad)))
    # where the encrypted stream begins: plaintext requests put behind a controller's genuine pair-verify finish (same segment) and
    # one stray byte a moment later.  None of it was sealed by the controller: nothing of it may be served.
    # (Model/Pipeline.v: C05_only_sealed_requests_served / C05_refuted_request_buffered_before_the_switch)
    inj = {"id": "inj0", "kind": "plaintext-behind-finish", "line": "sk nacc=0 N:h S:h:c0:ok INJ:c0:2.9:%d" % (12 if quick else 60)}
    o = core.shard_run(os.path.join(core.BUILD, "hcdrv"), "stack", ["%s %s" % (inj["id"], inj["line"])]).get(inj["id"], "NO-OUTPUT")
    res.cases += 1
    res.distinct.add(core.sha(inj["line"]))
    res.nontrivial.add(core.sha(inj["line"]))
    res.count("kind:" + inj["kind"])
    last = o.split(" ")[-1]
    res.extra["plaintext_behind_finish"] = last
    if last.startswith("INJ=hit"):
        key = "C05:plaintext-behind-verify-finish"
        known = {k["key"]: k for k in core.load_known() if k.get("property") == ID and k.get("state") == "known"}
        if key in known:
            res.known_hits[key] = known[key]["what"]
        else:
            res.violations.append(("plaintext-behind-finish", {"property": ID, "family": "stack", "seed": res.seed, "case": inj["line"], "implementation_observed": o[-200:],
                                   "required": "plaintext requests put behind a controller's genuine pair-verify finish were served as the controller's (%s): only what the peer sealed may be released" % last,
                                   "failing_input_found": True, "replay": "python3 tools/check.py C05 --replay <this file>"}))
    elif not last.startswith("INJ=none"):
        res.violations.append(("plaintext-behind-finish", {"property": ID, "family": "stack", "seed": res.seed, "case": inj["line"], "implementation_observed": o[-200:],
                               "required": "the scenario must run (harness failure?)", "failing_input_found": False, "replay": "python3 tools/check.py C05 --replay <this file>"}))
    res.obligations.append(("implementation-side run: plaintext requests behind a genuine pair-verify finish are never served", last.startswith("INJ=none"), last))
    # the plaintext phase hands the HTTP layer one request at a time (Pipeline.framed): requests arriving back to back in arbitrary
    # segments, read with arbitrary buffer sizes; no read crosses a request boundary, nothing of the next request is handed over
    # while one is being handled, nothing is lost
    pf = []
    for i in range(40 if quick else 1500):
        lens = ",".join("%d/%d" % (rng.choice([60, 64, 65, 80, 200, 1000, 4095, 4096, 5000]), rng.choice([0, 0, 1, 40, 300, 1500, 4096, 9000])) for _ in range(rng.randrange(1, 6)))
        segs = ",".join(str(rng.choice([1, 2, 3, 7, 64, 100, 1024, 1448, 4096, 100000])) for _ in range(rng.randrange(1, 6)))
        bufs = ",".join(str(rng.choice([1, 1, 2, 16, 100, 512, 4096, 8192])) for _ in range(rng.randrange(1, 5)))
        pf.append({"id": "pf%d" % i, "kind": "plain-framing", "line": "pf %s %s %s %s" % (lens, segs, bufs, rng.choice(["crlf", "lf", "mix", "rnd%d" % rng.randrange(1000), "rnd%d" % rng.randrange(1000), "rnd%d" % rng.randrange(1000)]))})
    pobs = core.shard_run(os.path.join(core.BUILD, "hcdrv"), "conn", ["%s %s" % (c["id"], c["line"]) for c in pf])
    pbad = 0
    for c in pf:
        o = pobs.get(c["id"], "NO-OUTPUT")
        res.cases += 1
        res.distinct.add(core.sha(c["line"]))
        res.nontrivial.add(core.sha(c["line"]))
        res.count("kind:" + c["kind"])
        if o != "ok":
            pbad += 1
            res.violations.append(("plain-framing", {"property": ID, "family": "conn", "seed": res.seed, "case": c["line"], "implementation_observed": o[:300],
                                   "required": "before a connection is encrypted the HTTP layer is handed one request at a time (what was received behind a pair-verify finish is the beginning of the encrypted stream): " + o[:160],
                                   "failing_input_found": True, "replay": "python3 tools/check.py C05 --replay <this file>"}))
    res.obligations.append(("implementation-side runs: the plaintext phase hands over one request at a time", pbad == 0, "%d runs, %d failing" % (len(pf), pbad)))
    # where a plain text message ends, byte for byte: Model/PlainFrame.v against plainHeaderEnd / plainMessageBytes
    from . import plainprops
    core.run_correspondence(res, "plain", plainprops.gen(core.rng_for(ID + "/plain", res.seed), a.tier), plainprops, corr_name=plainprops.CORR)



class Counter:
    """a stream is accepted exactly at the counter it was sealed at"""
    nontrivial = staticmethod(lambda c: True)
    outcome_class = staticmethod(lambda c, obs: "counter/" + (obs.split("st=")[-1] if "st=" in obs else obs[:8]))
    same = staticmethod(lambda c, g, m: g == m or g == "skip")
    classify = staticmethod(lambda c, obs, why: None)

    @staticmethod
    def oracle(c, obs):
        if obs == "skip":
            return None
        if obs.startswith("panic") or obs.startswith("DRIVER-DIED") or obs == "NO-OUTPUT":
            return "no panic; observed " + obs[:80]
        f = dict(t.split("=", 1) for t in obs.split(" ") if "=" in t)
        honest = c["meta"]["chunks"]
        if honest:
            if f.get("st") != "clean" or f.get("out") != "".join(honest):
                return "an unmodified stream was not released in full at the counter it was sealed at (%s)" % c["meta"]["note"]
        elif f.get("out"):
            return "plaintext was released for frames sealed at another counter (%s)" % c["meta"]["note"]
        elif f.get("st") != "err":
            return "frames sealed at another counter were not reported as an error (%s)" % c["meta"]["note"]
        return None


class ConnLevel:
    """the property on what hap.Connection.Read hands to its caller"""
    shard_group = staticmethod(lambda line: line.split(" ")[2])

    @staticmethod
    def nontrivial(c):
        return not c["kind"].startswith("conn/identity")

    @staticmethod
    def outcome_class(c, obs):
        return c["kind"] + ("/error" if "e:err" in obs else "/clean")

    @staticmethod
    def oracle(c, obs):
        if obs.startswith("panic") or obs.startswith("DRIVER-DIED") or obs == "NO-OUTPUT":
            return "no panic; observed " + obs[:80]
        meta = c["meta"]
        stream, honest = bytes.fromhex(c["stream"]), bytes.fromhex(meta["honest"])
        chunks = [bytes.fromhex(x) for x in meta["chunks"]]
        j, pos = 0, 0
        for ch in chunks:
            n = 2 + len(ch) + 16
            if len(stream) >= pos + n and stream[pos:pos + n] == honest[pos:pos + n]:
                j += 1
                pos += n
            else:
                break
        intact = b"".join(chunks[:j])
        got, failed = b"", False
        for r in obs.split(" "):
            if r.startswith("d:"):
                if failed:
                    return "data was delivered after a frame had failed to decrypt (%s)" % meta["note"]
                got += bytes.fromhex(r[2:])
            elif r in ("e:err", "z"):
                failed = True
        if got != intact[:len(got)]:
            return "delivered bytes are not a prefix of the intact frames the peer sent (%s)" % meta["note"]
        if len(got) > len(intact):
            return "more was delivered than the intact frame prefix (%s)" % meta["note"]
        if len(stream) != pos and got != intact:
            return None if failed else "the stream deviates after frame %d: the intact frames must be delivered and an error reported (%s)" % (j, meta["note"])
        if len(stream) != pos and not failed and len(stream) - pos >= 18:
            # a complete altered frame is present: it must be reported
            n = 2 + (stream[pos] | stream[pos + 1] << 8) + 16
            if len(stream) - pos >= n:
                return "an altered frame was not reported as an error (%s)" % meta["note"]
        return None

    @staticmethod
    def classify(c, obs, why):
        return None


def nontrivial(c):
    return c["kind"] not in ("identity", "seal")


def outcome_class(c, obs):
    return c["kind"] + "/" + (obs.split("st=")[-1] if "st=" in obs else obs[:10])


def oracle(c, obs):
    if obs.startswith("panic") or obs.startswith("DRIVER-DIED") or obs == "NO-OUTPUT":
        return "no panic; observed " + obs[:80]
    meta = c.get("meta")
    if not meta:
        return None
    f = dict(t.split("=", 1) for t in obs.split(" ") if "=" in t)
    out = bytes.fromhex(f.get("out", ""))
    st = f.get("st")
    stream = bytes.fromhex(c["stream"]) if "stream" in c else (bytes.fromhex(c["line"].split(" ")[3]) if len(c["line"].split(" ")) > 3 else b"")
    honest = bytes.fromhex(meta["honest"])
    chunks = [bytes.fromhex(x) for x in meta["chunks"]]
    # j = number of complete honest frames that prefix the stream
    j, pos = 0, 0
    for ch in chunks:
        n = 2 + len(ch) + 16
        if stream[pos:pos + n] == honest[pos:pos + n] and len(stream) >= pos + n:
            j += 1
            pos += n
        else:
            break
    allowed = [b"".join(chunks[:k]) for k in range(j + 1)]
    if out not in allowed:
        return "released %d bytes that are not a frame-prefix of what the peer sent (%s)" % (len(out), meta["note"])
    exact = (len(stream) == pos)
    if exact:
        if st != "clean" or out != allowed[j]:
            return "an unmodified frame-prefix of the stream must be released in full without error (%s)" % meta["note"]
    elif st != "err":
        return "the stream deviates from what the peer sent after frame %d but no error was reported (%s)" % (j, meta["note"])
    return None


def classify(c, obs, why):
    return None


def shard_group(line):
    t = line.split(" ")
    return t[2] if len(t) > 2 else ""
