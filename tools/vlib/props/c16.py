"""C16 — TLV8 containers round-trip and fragment correctly (util/tlv8.go)."""
ID = "C16"
FAMILY = "tlv"
RULE = ("cases: (a) histories of SetBytes/SetByte with tags 0..255, value lengths at the fragment "
        "boundaries (0,1,254..256,509..511,764..766,1019..1021,1024) and stepping/random lengths, repeated and "
        "interleaved tags, and histories with reads between the sets; (b) parser inputs: arbitrary bytes, well-formed item sequences with zero-length items,  every truncation of well-formed encodings, "
        "length-byte mutations. distinct = distinct case line; non-trivial = a history with a value > 255 bytes "
        "or a repeated tag, or a parser input of >= 2 bytes")
BOUNDARY = [0, 1, 2, 254, 255, 256, 509, 510, 511, 764, 765, 766, 1019, 1020, 1021, 1024]


def rb(rng, n):
    return bytes(rng.getrandbits(8) for _ in range(n)).hex()


def ref_encode(ops):
    out = bytearray()
    for tag, v in ops:
        for i in range(0, len(v), 255):
            ch = v[i:i + 255]
            out += bytes([tag, len(ch)]) + ch
    return bytes(out)


def gen(rng, tier):
    cases = []

    def add(kind, line):
        cases.append({"id": "%s%d" % (kind, len(cases)), "line": line, "kind": kind})

    tags_small = [0, 1, 6, 255]
    if tier == "quick":
        for L in BOUNDARY:
            for t in (rng.choice(tags_small), rng.randrange(256)):
                add("single", "sets %d:%s" % (t, rb(rng, L)))
        for L in range(0, 601, 7):
            add("single", "sets %d:%s" % (rng.randrange(256), rb(rng, L)))
        nseq, nparse = 300, 300
    else:
        for t in range(256):
            for L in (0, 1, 255, 256, 510, 511):
                add("single", "sets %d:%s" % (t, rb(rng, L)))
        for L in range(0, 1025):
            add("single", "sets %d:%s" % (rng.randrange(256), rb(rng, L)))
            add("single", "sets %d:%s" % (rng.choice(tags_small), "00" * L))
        for L in (2048, 4095, 4096, 255 * 20, 65536):
            add("single", "sets %d:%s" % (rng.randrange(256), rb(rng, L)))
        nseq, nparse = 6000, 6000
    add("seq", "sets 1:%s 2:%s 1:%s" % (rb(rng, 3000), rb(rng, 3000), rb(rng, 700)))
    for L in (1, 2, 5, 255, 256, 300):
        for z in (1, 2):
            add("single", "sets %d:%s" % (rng.choice(tags_small), rb(rng, L - z if L > z else 0) + "00" * min(z, L)))
    for _ in range(nseq):
        k = rng.randrange(1, 7)
        pool = rng.sample(range(256), 2) if rng.random() < 0.7 else list(range(256))
        ops = []
        for _ in range(k):
            r = rng.random()
            L = rng.choice(BOUNDARY) if r < 0.35 else (rng.randrange(0, 5) if r < 0.6 else rng.randrange(0, 700))
            ops.append("%d:%s" % (rng.choice(pool), rb(rng, L)))
        add("seq", "sets " + " ".join(ops))
    # histories with reads in between (a read must not change or pin anything)
    for _ in range(nseq // 3):
        pool = rng.sample(range(256), 2)
        ops = []
        for _ in range(rng.randrange(2, 8)):
            r = rng.random()
            if r < 0.4:
                ops.append("?%d" % rng.choice(pool))
            else:
                L = rng.choice([1, 1, 1, 0, 2, 255, 256, 300])
                ops.append("%d:%s" % (rng.choice(pool), rb(rng, L)))
        add("seq-reads", "sets " + " ".join(ops))
    # parser inputs
    for _ in range(nparse // 3):
        add("parse-random", "parse " + rb(rng, rng.randrange(0, 40)))
    # well-formed item sequences as a peer may send them, zero-length items included (first, middle, last, only)
    for dire in ("0600", "0000060101", "06000601", "0601050600", "ff00", "0000", "010001000100"):
        add("parse-items", "parse " + dire)
    for _ in range(nparse // 3):
        its = []
        pool = rng.sample(range(256), 2)
        for _ in range(rng.randrange(1, 6)):
            L = rng.choice([0, 0, 0, 1, 2, 5, 255])
            its.append(bytes([rng.choice(pool), L]) + bytes(rng.getrandbits(8) for _ in range(L)))
        add("parse-items", "parse " + b"".join(its).hex())
    bases = []
    for _ in range(4 if tier == "quick" else 40):
        ops = [(rng.randrange(256), bytes(rng.getrandbits(8) for _ in range(rng.choice([0, 1, 3, 10, 255, 256, 300]))))
               for _ in range(rng.randrange(1, 4))]
        bases.append(ref_encode(ops))
    for b in bases:
        cuts = range(len(b) + 1) if len(b) < 80 else sorted(set(list(range(0, 12)) + [rng.randrange(len(b)) for _ in range(20)] + [len(b) - 1, len(b), 256, 257, 258]))
        for cut in cuts:
            if cut <= len(b):
                add("parse-trunc", "parse " + b[:cut].hex())
    for _ in range(nparse // 3):
        b = bytearray(rng.choice(bases))
        if b:
            for _ in range(rng.randrange(1, 3)):
                b[rng.randrange(min(len(b), 300))] = rng.choice([0, 1, 254, 255, rng.getrandbits(8)])
        add("parse-mut", "parse " + bytes(b).hex())
    return cases


def parse_line(line):
    toks = line.split(" ")
    if toks[0] == "sets":
        ops = []
        for t in toks[1:]:
            if t.startswith("?"):
                continue
            a, b = t.split(":")
            ops.append((int(a), bytes.fromhex(b)))
        return "sets", ops
    return "parse", bytes.fromhex(toks[1]) if len(toks) > 1 else b""


def nontrivial(c):
    k, x = parse_line(c["line"])
    if k == "sets":
        tags = [t for t, _ in x]
        return any(len(v) > 255 for _, v in x) or len(set(tags)) < len(tags)
    return len(x) >= 2


def std_parse(b):
    """a standard TLV8 parser written from the specification; None when malformed"""
    i, items = 0, []
    while i < len(b):
        if i + 2 > len(b):
            return None
        t, l = b[i], b[i + 1]
        if i + 2 + l > len(b):
            return None
        items.append((t, b[i + 2:i + 2 + l]))
        i += 2 + l
    return items


def obs_fields(obs):
    d = {}
    for tok in obs.split(" "):
        if "=" in tok:
            k, v = tok.split("=", 1)
            d[k] = v
    return d


def outcome_class(c, obs):
    f = obs_fields(obs)
    if "reparse" in f:
        return "sets/reparse=" + f["reparse"]
    if "parse" in f:
        return "parse=" + f["parse"]
    return obs[:20]


def oracle(c, obs):
    """the property's own predicate, evaluated on what the implementation did"""
    kind, x = parse_line(c["line"])
    if " piecewise=" in obs:
        return "the same bytes arriving in pieces (one byte / half of what is asked for per read) do not parse to the same container: " + obs.split(" piecewise=")[1][:40]
    if "/str:" in obs:
        return "GetString of a tag is not the bytes GetBytes returns for it: " + [t for t in obs.split(" ") if "/str:" in t][0][:80]
    if obs.startswith("panic") or obs.startswith("DRIVER-DIED") or obs == "NO-OUTPUT":
        return "no panic / crash on any input; observed: " + obs[:80]
    f = obs_fields(obs)
    if kind == "sets":
        want = {}
        for t, v in x:
            want[t] = want.get(t, b"") + v
        if f.get("reparse") != "ok":
            return "parsing the serialised container must succeed"
        ser = bytes.fromhex(f["ser"])
        items = std_parse(ser)
        if items is None:
            return "serialised bytes are not well-formed TLV8 for a standard parser"
        got = {}
        for t, v in items:
            got[t] = got.get(t, b"") + v
        for t in set(list(want) + list(got)):
            if got.get(t, b"") != want.get(t, b""):
                return "standard parser reassembles tag %d to %d bytes, expected the %d bytes set" % (t, len(got.get(t, b"")), len(want.get(t, b"")))
        if len(x) == 1 and len(x[0][1]) > 0:
            if any(len(v) != 255 for _, v in items[:-1]) or len(items[-1][1]) == 0:
                return "fragments of one value must be 255 bytes each except a non-empty last one"
        sofar = {}
        for i, tok in enumerate(c["line"].split(" ")[1:]):
            if tok.startswith("?"):
                t = int(tok[1:])
                hexv, first = f.get("q%d" % i, "??/-1").split("/")
                w = sofar.get(t, b"")
                if hexv != w.hex() or int(first) != (w[0] if w else 0):
                    return "a read of tag %d in the middle of the history (operation #%d) does not return what was set so far" % (t, i)
            else:
                a, b = tok.split(":")
                sofar[int(a)] = sofar.get(int(a), b"") + bytes.fromhex(b)
        for k, v in f.items():
            if k[0] in "ab" and k[1:].isdigit():
                t = int(k[1:])
                hexv, first = v.split("/")
                w = want.get(t, b"")
                if bytes.fromhex(hexv) != w:
                    return "GetBytes(%d) %s reparse differs from what was set" % (t, "after" if k[0] == "b" else "before")
                if int(first) != (w[0] if w else 0):
                    return "GetByte(%d) is not the first byte" % t
        return None
    # parser input
    items = std_parse(x)
    if f.get("parse") == "err":
        if items is not None:
            return "well-formed input rejected"
        return None
    if f.get("parse") != "ok":
        return "parser must return a container or an error; observed " + obs[:60]
    ser = bytes.fromhex(f.get("ser", ""))
    if items is not None:
        if ser != x:
            return "parsed container does not serialise back to the input"
        want = {}
        for t, v in items:
            want[t] = want.get(t, b"") + v
        for k, v in f.items():
            if k[0] == "b" and k[1:].isdigit():
                w = want.get(int(k[1:]), b"")
                if bytes.fromhex(v.split("/")[0]) != w:
                    return "GetBytes(%s) differs from the input's items" % k[1:]
                if int(v.split("/")[1]) != (w[0] if w else 0):
                    return "GetByte(%s) is not the first byte of the value (0 for an empty value)" % k[1:]
        return None
    # malformed input accepted: everything returned must still come from the input
    if len(ser) > len(x) or any(a != b for i, (a, b) in enumerate(zip(ser, x)) if True) and not _only_len_byte_differs(ser, x):
        return "parser accepted malformed input and yielded bytes that were not in the input"
    return None


def _only_len_byte_differs(ser, x):
    diff = [i for i, (a, b) in enumerate(zip(ser, x)) if a != b]
    return len(diff) <= 1


def classify(c, obs, why):
    return None
