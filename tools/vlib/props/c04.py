"""C04 — full-stack check (see stackprops.py / stackcommon.py)."""
from . import stackprops as sp, stackcommon as sc

ID = "C04"
FAMILY = "stack"
RETRY = 2
RULE = "honest runs of the independent reference controller for random valid setup codes, controller identifiers of 1, 36, 64 bytes, arbitrary UTF-8 and binary, fresh Ed25519 / X25519 keys, 0..150 extra accessories (responses of many frames and chunks), multi-frame writes; wrong-code runs. Every accessory proof / signature (M2, M4's sealed signature, M6) is checked by the controller. non-trivial = all"
ASSUMPTIONS = ["symbolic cryptography in the model (forging is impossible by construction of the message alphabet: INT-CTXT of ChaCha20-Poly1305, EUF-CMA of Ed25519, SRP-6a soundness, CDH on Curve25519, HKDF as a random oracle are assumed, not proved); net/http request parsing is modelled as 400-and-close for ciphertext on a plaintext connection; the reference controller's abstract message kinds are realised by concrete builders in harness/cmd/hcdrv/stack.go"]
TRUSTED = ["reference controller harness/cmd/hcdrv/refctl.go (math/big SRP with the RFC 3526 prime re-derived from pi, crypto/ed25519, x/crypto curve25519 / chacha20poly1305 / hkdf)", "scenario translation ocaml/fam_stack.ml and canonicalisation tools/vlib/props/stackcommon.py"]
EXTRA_FILES = ("Proofs/HapProofs.v", "Proofs/CharacProofs.v")
gen = sp.gen_c04
oracle = sp.oracle_c04
same = sc.same


def nontrivial(c):
    return len(c["line"].split(" ")) > 6


def outcome_class(c, obs):
    return c["kind"]


def classify(c, obs, why):
    return None
