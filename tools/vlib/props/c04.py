"""C04 — full-stack check (see stackprops.py / stackcommon.py)."""
from . import stackprops as sp, stackcommon as sc

ID = "C04"
FAMILY = "stack"
RETRY = 2
RULE = "honest runs of the independent reference controller for random valid setup codes, controller identifiers of 1, 36, 64 bytes, arbitrary UTF-8 and binary, fresh Ed25519 / X25519 keys, 0..150 extra accessories (responses of many frames and chunks), multi-frame writes; wrong-code runs. Every accessory proof / signature (M2, M4's sealed signature, M6) is checked by the controller. non-trivial = all"
ASSUMPTIONS = ["symbolic cryptography in the model (forging is impossible by construction of the message alphabet: INT-CTXT of ChaCha20-Poly1305, EUF-CMA of Ed25519, SRP-6a soundness, CDH on Curve25519, HKDF as a random oracle are assumed, not proved); net/http request parsing is modelled as 400-and-close for ciphertext on a plaintext connection; the reference controller's abstract message kinds are realised by concrete builders in harness/cmd/hcdrv/stack.go"]
TRUSTED = ["reference controller harness/cmd/hcdrv/refctl.go (math/big SRP with the RFC 3526 prime re-derived from pi, crypto/ed25519, x/crypto curve25519 / chacha20poly1305 / hkdf)", "scenario translation ocaml/fam_stack.ml and canonicalisation tools/vlib/props/stackcommon.py"]
EXTRA_FILES = ("Proofs/HapProofs.v", "Proofs/CharacProofs.v")
gen = sp.gen_c04
oracle = sp.oracle_c04
same = sc.same


def nontrivial(c):
    return len(c["line"].split(" ")) > 6


def outcome_class(c, obs):
    return c["kind"]


def classify(c, obs, why):
    return None


# ---------------------------------------------------------------- SRP-6a: the Gallina model against hc's accessory
def _nlist(b):
    return "[" + "; ".join(str(x) for x in b) + "]%N"


def srp_stage(res, a, lines=None):
    """pair-setup M1..M4 against the real accessory with the controller's secret exponent a given; afterwards the Gallina
    SRP client (Model/Srp.v, the function C04_srp_completes is about, run with the fast exponentiation of
    Proofs/SrpFast.v) is evaluated by coqc/vm_compute on (code, a, salt, B) and compared with what the accessory accepted
    (A, M1) and answered (M2)."""
    import os, re, shutil
    from concurrent.futures import ThreadPoolExecutor
    from .. import core
    rng = core.rng_for(ID + "/srp", res.seed)
    if lines is None:
        kinds = ["ok", "wrongcode", "badproof"] if a.tier == "quick" else ["ok"] * 6 + ["wrongcode"] * 3 + ["badproof"] * 3
        lines = ["srp %s %x %s" % (sp.valid_pin(rng), rng.getrandbits(rng.choice([256, 256, 64, 8])) + 1, k) for k in kinds]
    cases = [{"id": "srp%d" % i, "line": l, "kind": "srp/" + l.split(" ")[-1]} for i, l in enumerate(lines)]
    good = core.vo_ok("Proofs/SrpFast.v")
    res.obligations.append(("Proofs/SrpFast.v (mexp_fast_spec: the exponentiation the correspondence run evaluates equals b ^ e mod n; "
                            "depends on the standard library's axioms for primitive 63-bit integers, see trusted base)", good, "compiled" if good else "does not compile"))
    if not good:
        res.broken.append("Proofs/SrpFast.v does not compile")
        return
    obs = core.shard_run(os.path.join(core.BUILD, "hcdrv"), "srp", ["%s %s" % (c["id"], c["line"].split(" ", 1)[1]) for c in cases])
    d = os.path.join(core.BUILD, "srp")
    shutil.rmtree(d, ignore_errors=True)
    os.makedirs(d)
    jobs = []
    for c in cases:
        o = obs.get(c["id"], "NO-OUTPUT")
        f = dict(t.split("=", 1) for t in o.split(" ") if "=" in t)
        c["obs"], c["f"] = o, f
        if not all(k in f for k in ("code", "salt", "B", "A", "M1", "acc", "M2")):
            continue
        hb = lambda k: list(bytes.fromhex(f[k]))
        src = ("From Coq Require Import ZArith List.\nFrom HC Require Import Base.HBytes Gen.Extracted Model.Srp Proofs.SrpFast.\nImport ListNotations.\nOpen Scope Z_scope.\n"
               "Definition r := Eval vm_compute in\n  let c := client mexp_fast rfc5054_3072 Extracted.srp_username %s 0x%s %s %s in\n"
               "  (eqb_bytes (cA c) %s, eqb_bytes (cM1 c) %s, eqb_bytes (cM2 c) %s).\nPrint r.\n"
               % (_nlist(hb("code")), c["line"].split(" ")[2], _nlist(hb("salt")), _nlist(hb("B")), _nlist(hb("A")), _nlist(hb("M1")), _nlist(hb("M2"))))
        path = os.path.join(d, c["id"] + ".v")
        open(path, "w").write(src)
        jobs.append((c, path))

    def coq(job):
        c, path = job
        rc, out = core.sh(["coqc", "-Q", core.COQ, "HC", path], cwd=d, timeout=900, check=False)
        m = re.search(r"r\s*=\s*\(\s*(true|false)\s*,\s*(true|false)\s*,\s*(true|false)\s*\)", out)
        c["model"] = tuple(x == "true" for x in m.groups()) if m else None
        c["coq_out"] = out[-300:]
    with ThreadPoolExecutor(min(len(jobs), core.NCPU) or 1) as ex:
        list(ex.map(coq, jobs))
    bad = 0
    for c in cases:
        res.cases += 1
        h = core.sha(c["line"])
        res.distinct.add(h)
        res.nontrivial.add(h)
        res.count("kind:" + c["kind"])
        f, why = c["f"], None
        if "model" not in c:
            why = "harness failure: " + c["obs"][:120]
        elif c["model"] is None:
            why = "the SRP model could not be evaluated: " + c["coq_out"][-200:]
        else:
            sameA, sameM1, sameM2 = c["model"]
            acc = f["acc"] == "1"
            res.count("outcome:" + c["kind"] + ("/accepted" if acc else "/refused"))
            if not sameA:
                why = "the controller's public key A = g^a mod N differs between the SRP model and the reference controller"
            elif acc != sameM1:
                why = ("the accessory accepted a proof that is not the specification's M1 for (code, a, salt, B)" if acc else
                       "the accessory refused (status %s, error %s) the proof the specification prescribes for its own salt and B" % (f.get("st"), f.get("err") or "-"))
            elif acc and not sameM2:
                why = "the accessory's proof M2 is not H(A | M1 | K) of the key the specification derives"
        if why:
            bad += 1
            res.violations.append(("srp", {"property": ID, "family": "srp", "seed": res.seed, "case": c["line"], "implementation_observed": c["obs"][:600],
                                           "model_predicted": str(c.get("model")), "required": why, "failing_input_found": True,
                                           "replay": "python3 tools/check.py C04 --replay <this file>"}))
    res.obligations.append(("correspondence SRP-6a model (Model/Srp.v, evaluated by coqc) <-> hc's accessory, pair-setup M1..M4", bad == 0, "%d exchanges, %d disagreeing" % (len(cases), bad)))
    res.trusted.append("SRP correspondence: the model is evaluated inside Coq (vm_compute) with Bignums exponentiation; Proofs/SrpFast.v relies on the standard "
                       "library's primitive-integer axioms (Uint63.*_spec, PrimInt63.*), no property theorem does; the accessory's salt and B are inputs of the model run")


def run(res, a):
    import json, sys
    from .. import core
    mod = sys.modules[__name__]
    res.rule = RULE + ("; additionally pair-setup M1..M4 with the controller's SRP secret fixed, recomputed by the Gallina SRP-6a model "
                       "(right code, wrong code, altered proof; secrets of 8..256 bits)")
    res.assumptions = list(ASSUMPTIONS)
    core.build_everything(res, ID, extra_files=EXTRA_FILES)
    res.trusted += list(TRUSTED)
    if a.replay:
        rep = json.load(open(a.replay))
        if rep["case"].startswith("srp "):
            srp_stage(res, a, [rep["case"]])
        elif rep["case"].startswith("hist "):
            from . import c20
            core.run_correspondence(res, c20.FAMILY, [{"id": "replay", "line": rep["case"], "kind": "hist/identity"}], c20)
        else:
            core.run_correspondence(res, FAMILY, [{"id": "replay", "line": rep["case"], "kind": "replay", "meta": rep.get("meta") or {}}], mod)
        return
    rng = core.rng_for(ID, res.seed)
    core.run_correspondence(res, FAMILY, core.load_corpus(FAMILY) + gen(rng, a.tier), mod)
    srp_stage(res, a)
    # accessory identities and storage contents: a controller paired before a restart verifies after it, also when the stored
    # identity is one the library would not have generated itself (lower-case letters); judged by the model and oracle of C20
    from . import c20
    hist = ["hist S:l:-:5 PS:c1 T E X S:l:-:5 T RM:c1:c1 T E",
            "hist S:l:-:5 PS:c1 T E X LC S:l:-:5 T E RM:c1:c1 T X S:l:-:5 T E",
            "hist S:b,s:-:2 X LC S:b,s:-:2 PS:c1 T X S:b,s:-:2 AD:c1:c2 T E RM:c2:c1 T E"]
    core.run_correspondence(res, c20.FAMILY, [{"id": "ident%d" % i, "line": l, "kind": "hist/identity"} for i, l in enumerate(hist)], c20,
                            corr_name="correspondence model<->code, family config (stored identities across restarts)")
