"""C15 — the characteristic and service catalog matches the HomeKit metadata."""
import os, re
from .. import core

ID = "C15"
FAMILY = "catalog"
RULE = ("every zero-argument constructor found by the translator in characteristic/ (about 170) and service/ (about 54) is "
        "called at run time (under recover) and its object compared field by field with the statically translated record the "
        "Coq theorems are about (type, format, permissions, min / max / step with their Go type, default, unit; services: type, "
        "characteristic types in order) AND, independently of the translator, with gen/metadata.json read by the oracle (matched by constructor name; "
        "type, format, permissions, min / max / step, unit, required characteristics); the JSON of every constructed characteristic "
        "(what a controller is served) must declare the same type / format / permissions / unit / min / max / step as the object; "
        "all 11 accessory constructors are called with a minimal and with a fully populated Info and every service inside the "
        "accessories is checked against the metadata's required characteristics (oracle only). Enumeration is exhaustive over the catalog. "
        "non-trivial = a constructor with bounds or a service")
EXTRA_FILES = ("Gen/CatalogGen.v", "Gen/MetadataGen.v", "Proofs/CatalogProofs.v")
ASSUMPTIONS = ["the translator recognises the constructor shapes of the generated and hand-written files (an unrecognised shape is reported, not skipped); its output is cross-checked against the run-time objects by this correspondence",
               "metadata numbers and Go literals are compared after canonical decimal formatting (strconv 'g', shortest)"]
TRUSTED = ["tools/translate/catalog.go (go/parser walk), generated registry harness/cmd/hcdrv/catalog_registry_gen.go"]


def names():
    reg = open(os.path.join(core.HARNESS, "cmd", "hcdrv", "catalog_registry_gen.go")).read()
    chars = re.findall(r'^\t"(New\w+)": func\(\) \*characteristic', reg, flags=re.M)
    svcs = re.findall(r'^\t"(New\w+)": func\(\) \*service', reg, flags=re.M)
    return chars, svcs


def gen(rng, tier):
    chars, svcs = names()
    cases = [{"id": "c%d" % i, "line": "char " + n, "kind": "char"} for i, n in enumerate(chars)]
    cases += [{"id": "s%d" % i, "line": "svc " + n, "kind": "svc"} for i, n in enumerate(svcs)]
    cases.append({"id": "acc", "line": "accessories", "kind": "acc"})
    return cases


def nontrivial(c):
    return True


def outcome_class(c, obs):
    return c["kind"] + ("/panic" if obs.startswith("panic") else "")


def same(c, g, m):
    return c["kind"] == "acc" or g == m


_meta = None


def metadata():
    """gen/metadata.json read directly (independent of the translator): constructor name -> definition"""
    global _meta
    if _meta is None:
        import json
        m = json.load(open(os.path.join(core.REPO, "gen", "metadata.json")))

        def ctor(name):
            return "New" + "".join(w[:1].upper() + w[1:] for w in re.split(r"[^A-Za-z0-9]+", name) if w)

        def short(u):
            return u.split("-")[0].lstrip("0") or "0"
        _meta = {"char": {ctor(x["Name"]): dict(x, short=short(x["UUID"])) for x in m["Characteristics"]},
                 "svc": {ctor(x["Name"]): dict(x, short=short(x["UUID"]), req=[short(u) for u in x.get("RequiredCharacteristics", [])]) for x in m["Services"]}}
    return _meta


# the HomeKit category each accessory constructor announces (the library's choice), by its name in the metadata
CATEGORY_OF = {"New": "Other", "Bridge": "Bridge", "Camera": "IP Camera", "ColoredLightbulb": "Lightbulb", "Lightbulb": "Lightbulb", "Outlet": "Outlet",
               "Switch": "Switch", "Television": "Television", "TemperatureSensor": "Thermostat", "Thermostat": "Thermostat", "Window": "Window"}
_cats = None


def categories():
    global _cats
    if _cats is None:
        import json
        m = json.load(open(os.path.join(core.REPO, "gen", "metadata.json")))
        _cats = {x["Name"]: int(x["Category"]) for x in m["Categories"]}
    return _cats


def category_constants():
    """accessory/constant.go against the metadata's category list (read by regular expression, independent of the translator):
    [(constant, value, metadata value)] for every constant whose name matches a metadata category and whose value differs"""
    src = open(os.path.join(core.REPO, "accessory", "constant.go")).read()
    norm = lambda n: re.sub(r"[^a-z0-9]", "", n.lower())
    want = {norm(k): v for k, v in categories().items()}
    bad = []
    for n, v in re.findall(r"^\s*Type(\w+)\s+AccessoryType\s*=\s*(\d+)\s*$", src, flags=re.M):
        if norm(n) in want and want[norm(n)] != int(v):
            bad.append((n, int(v), want[norm(n)]))
    return bad


def num(t):
    return None if t in ("-", "", None) else float(re.sub(r"[if]$", "", t))


def oracle(c, obs):
    if obs.startswith("panic") or obs.startswith("nil-base") or obs.startswith("DRIVER-DIED") or obs == "NO-OUTPUT":
        return "constructor %s does not return a usable object: %s" % (c["line"], obs[:60])
    name = c["line"].split(" ")[-1]
    if c["kind"] == "char" and name in metadata()["char"]:
        md = metadata()["char"][name]
        f = dict(t.split("=", 1) for t in obs.split(" ") if "=" in t)
        if f.get("type", "").upper() != md["short"].upper():
            return "%s has type %s, the metadata declares %s" % (name, f.get("type"), md["short"])
        if f.get("format") != md["Format"]:
            return "%s has format %s, the metadata declares %s" % (name, f.get("format"), md["Format"])
        want = [p for p, k in (("pr", "read"), ("pw", "write"), ("ev", "cnotify")) if k in md.get("Properties", [])]
        if sorted(f.get("perms", "").split(",")) != sorted(want):
            return "%s has permissions %s, the metadata declares %s" % (name, f.get("perms"), ",".join(want))
        cons = {k[:1].upper() + k[1:]: v for k, v in md.get("Constraints", {}).items()}     # one entry spells "stepValue"
        for fld, key in (("min", "MinimumValue"), ("max", "MaximumValue"), ("step", "StepValue")):
            a, b = num(f.get(fld)), cons.get(key)
            if (a is None) != (b is None) or (a is not None and abs(a - float(b)) > 1e-9):
                return "%s has %s %s, the metadata declares %s" % (name, fld, f.get(fld), b)
        if (f.get("unit") or "") != (md.get("Unit") or ""):
            return "%s has unit %r, the metadata declares %r" % (name, f.get("unit"), md.get("Unit"))
    if c["kind"] == "svc" and name in metadata()["svc"]:
        md = metadata()["svc"][name]
        m = re.match(r"type=(\S*) chars=(\S*)$", obs)
        if m:
            if m.group(1).upper() != md["short"].upper():
                return "%s has type %s, the metadata declares %s" % (name, m.group(1), md["short"])
            have = [x.upper() for x in m.group(2).split(",")]
            missing = [r for r in md["req"] if r.upper() not in have]
            if missing:
                return "%s lacks the required characteristics %s" % (name, missing)
    if c["kind"] == "char":
        f = dict(t.split("=", 1) for t in obs.split(" ") if "=" in t)
        if f.get("default", "").startswith("num:") and "pr" in f.get("perms", ""):
            d = float(f["default"][4:])
            for b, cmp in (("min", lambda x: d < x), ("max", lambda x: d > x)):
                if f.get(b, "-") != "-" and cmp(float(f[b][:-1])):
                    return "the default value %r of %s lies outside its declared %s %s" % (d, c["line"], b, f[b])
        if "pr" in f.get("perms", "").split(",") and f.get("default", "none") == "none":
            return "constructor %s yields a characteristic that can be read but has no value (its typed getter panics, it is served without a value)" % c["line"]
        if not f.get("type") or not f.get("format") or not f.get("perms"):
            return "constructor %s yields an object without type / format / permissions: %s" % (c["line"], obs[:80])
    if c["kind"] == "svc":
        m = re.match(r"type=(\S*) chars=(\S*)$", obs)
        if not m or not m.group(1):
            return "service constructor without a type: " + obs
        ts = m.group(2).split(",")
        if len(set(ts)) != len(ts):
            return "service %s contains two characteristics of the same type: %s" % (c["line"], obs)
    if c["kind"] == "char" and " served=" in obs:
        return "the characteristic of %s as served to a controller (its JSON) does not declare what the object declares: %s" % (c["line"], obs.split(" served=")[1][:120])
    if c["kind"] == "acc":
        bad = category_constants()
        if bad:
            return "accessory category constant Type%s = %d, the metadata numbers that category %d" % bad[0]
        accs = obs.split(" ")
        if len(accs) != 42:
            return "an accessory constructor failed: " + obs[:200]
        bytype = {v["short"].upper(): v for v in metadata()["svc"].values()}
        for a in accs:
            name, nsvc, nch, svcs, vals, cat = a.split(":", 5)
            cname = CATEGORY_OF.get(name.split(".")[0].split("@")[0])
            if cname and int(cat) != categories()[cname]:
                return "accessory constructor %s returns category %s, the metadata numbers category '%s' %d" % (name.split(".")[0], cat, cname, categories()[cname])
            want = None
            if "@" in name:
                t, lo, hi = [float(x) for x in name.split("@")[1].rsplit(".", 1)[0].split(",")]
                want = t
            for v in [x for x in vals.split(",") if x]:
                ct, rest = v.split("=", 1)
                if rest.startswith("!unclamped"):
                    return "accessory constructor %s: the declared range of its characteristic %s is not in force (a value beyond it is stored: %s)" % (name.rsplit(".", 1)[0], ct, rest[10:].replace("_", " "))
                val, mn, mx = [num(x) for x in rest.split("/")]
                if val is not None and (mn is not None and val < mn or mx is not None and val > mx):
                    return "accessory constructor %s returns characteristic %s with value %s outside its declared range [%s, %s]" % (name.rsplit(".", 1)[0], ct, val, mn, mx)
                if want is not None and ct.upper() in ("11", "35") and val != want:
                    return "accessory constructor %s was given the temperature %s (inside the given range) but its characteristic %s holds %s" % (name.rsplit(".", 1)[0], want, ct, val)
            svl = svcs.split("/")
            if not svl or not svl[0].upper().startswith("3E["):
                return "accessory constructor %s: the first service is not the accessory information service" % name
            for sv in svl:
                st, chs = sv[:-1].split("[", 1)
                have = [x.upper() for x in chs.split(",") if x]
                if len(set(have)) != len(have):
                    return "accessory constructor %s: service %s contains two characteristics of the same type" % (name, st)
                md = bytype.get(st.upper())
                if md:
                    missing = [r for r in md["req"] if r.upper() not in have]
                    if missing:
                        return "accessory constructor %s (Info variant %s): its service %s lacks the required characteristics %s" % (
                            name.split(".")[0], name.split(".")[1], st, missing)
    return None


def classify(c, obs, why):
    return None
