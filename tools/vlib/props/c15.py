"""C15 — the characteristic and service catalog matches the HomeKit metadata."""
import os, re
from .. import core

ID = "C15"
FAMILY = "catalog"
RULE = ("every zero-argument constructor found by the translator in characteristic/ (about 170) and service/ (about 54) is "
        "called at run time (under recover) and its object compared field by field with the statically translated record the "
        "Coq theorems are about (type, format, permissions, min / max / step with their Go type, default, unit; services: type, "
        "characteristic types in order); all 11 accessory constructors are called. Enumeration is exhaustive over the catalog. "
        "non-trivial = a constructor with bounds or a service")
EXTRA_FILES = ("Gen/CatalogGen.v", "Gen/MetadataGen.v", "Proofs/CatalogProofs.v")
ASSUMPTIONS = ["the translator recognises the constructor shapes of the generated and hand-written files (an unrecognised shape is reported, not skipped); its output is cross-checked against the run-time objects by this correspondence",
               "metadata numbers and Go literals are compared after canonical decimal formatting (strconv 'g', shortest)"]
TRUSTED = ["tools/translate/catalog.go (go/parser walk), generated registry harness/cmd/hcdrv/catalog_registry_gen.go"]


def names():
    reg = open(os.path.join(core.HARNESS, "cmd", "hcdrv", "catalog_registry_gen.go")).read()
    chars = re.findall(r'^\t"(New\w+)": func\(\) \*characteristic', reg, flags=re.M)
    svcs = re.findall(r'^\t"(New\w+)": func\(\) \*service', reg, flags=re.M)
    return chars, svcs


def gen(rng, tier):
    chars, svcs = names()
    cases = [{"id": "c%d" % i, "line": "char " + n, "kind": "char"} for i, n in enumerate(chars)]
    cases += [{"id": "s%d" % i, "line": "svc " + n, "kind": "svc"} for i, n in enumerate(svcs)]
    cases.append({"id": "acc", "line": "accessories", "kind": "acc"})
    return cases


def nontrivial(c):
    return True


def outcome_class(c, obs):
    return c["kind"] + ("/panic" if obs.startswith("panic") else "")


def same(c, g, m):
    return c["kind"] == "acc" or g == m


def oracle(c, obs):
    if obs.startswith("panic") or obs.startswith("nil-base") or obs.startswith("DRIVER-DIED") or obs == "NO-OUTPUT":
        return "constructor %s does not return a usable object: %s" % (c["line"], obs[:60])
    if c["kind"] == "char":
        f = dict(t.split("=", 1) for t in obs.split(" ") if "=" in t)
        if f.get("default", "").startswith("num:") and "pr" in f.get("perms", ""):
            d = float(f["default"][4:])
            for b, cmp in (("min", lambda x: d < x), ("max", lambda x: d > x)):
                if f.get(b, "-") != "-" and cmp(float(f[b][:-1])):
                    return "the default value %r of %s lies outside its declared %s %s" % (d, c["line"], b, f[b])
        if not f.get("type") or not f.get("format") or not f.get("perms"):
            return "constructor %s yields an object without type / format / permissions: %s" % (c["line"], obs[:80])
    if c["kind"] == "svc":
        m = re.match(r"type=(\S*) chars=(\S*)$", obs)
        if not m or not m.group(1):
            return "service constructor without a type: " + obs
        ts = m.group(2).split(",")
        if len(set(ts)) != len(ts):
            return "service %s contains two characteristics of the same type: %s" % (c["line"], obs)
    if c["kind"] == "acc" and len(obs.split(" ")) != 11:
        return "an accessory constructor failed: " + obs
    return None


def classify(c, obs, why):
    return None
