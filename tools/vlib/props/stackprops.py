"""Generators and implementation-side oracles of the full-stack properties."""
import json, re
from .. import core
from . import stackcommon as sc

EMITS = set("S V Q G A P PM R X E B ST CB TXT RACE VR NS STORM STORMA STALL PSPLIT LSPLIT NSI RSC DUPW CHURN HSPLIT SRPMANY".split())

ADV_SETUP = ["wrongcode", "wrongproof", "noproof", "a0", "aN", "a2N", "aempty", "m5first", "start", "m3wrong", "m5zerokey",
             "m5randkey", "badstep", "badmethod", "garbage", "aNforged", "a0forged", "aemptyforged", "wrongcodezero", "m5zeroempty", "m5emptyhkdf"]
ADV_VERIFY = ["badsig", "unknown", "unknowntail", "reordered", "stale", "zerokey", "randkey", "flip", "inner-garbage", "inner-trailing", "short0", "short7",
              "short15", "short16", "reflect", "keylen31", "keylen33", "keylen0", "finishfirst", "startonly", "garbage"]
XEPS = [("accessories", "GET"), ("characteristics", "GET"), ("characteristics-put", "PUT"), ("pairings", "POST"),
        ("pairings-remove", "POST"), ("resource", "POST"), ("identify", "POST"),
        ("get-missing", "GET"), ("get-writeonly", "GET"), ("get-one", "GET"), ("put-readonly", "PUT"), ("put-noevents", "PUT"), ("put-missing", "PUT")]


def pair_tokens(line, obs):
    """[(op, token)] for the ops of a case line that emit an observation"""
    ops = [o for o in line.split(" ")[1:] if not (o.startswith("tbl=") or o.startswith("pin=") or o.startswith("nacc=") or o.startswith("fsz="))]
    em = [o for o in ops if o.split(":")[0] in EMITS]
    toks = sc.split_tokens(obs)
    return list(zip(em, toks)), len(em) == len(toks)


def mk(cases, kind, ops, meta=None, opts=""):
    line = "sk tbl=%s %s%s" % (sc.table_for(opts), (opts + " ") if opts else "", " ".join(ops))
    cases.append({"id": "%s%d" % (kind, len(cases)), "kind": kind, "line": line, "meta": meta or {}})


# ------------------------------------------------------------------ C01
def gen_c01(rng, tier):
    cases = []
    n = 40 if tier == "quick" else 600
    for _ in range(n):
        ops = ["N:h", "S:h:c0:ok", "V:h:c0:ok", "P:h:2.9:-:1", "G:h:4.13"]
        adv = []
        for i in range(rng.randrange(1, 4)):
            a = "a%d" % i
            ops.append("N:" + a)
            adv.append(a)
            for _ in range(rng.randrange(1, 6)):
                r = rng.random()
                if r < 0.45:
                    ep, m = rng.choice(XEPS)
                    ops.append("X:%s:%s:%s" % (a, ep, m))
                elif r < 0.6:
                    ops.append("S:%s:evil:%s" % (a, rng.choice(ADV_SETUP)))
                elif r < 0.8:
                    ops.append("V:%s:%s:%s" % (a, rng.choice(["c0", "evil"]), rng.choice(ADV_VERIFY + ["ok"]) if False else rng.choice(ADV_VERIFY)))
                elif r < 0.85:
                    ops.append("V:%s:evil:ok" % a)          # genuine protocol run with a key that is not paired
                elif r < 0.9:
                    ops.append("G:%s:2.9,4.13" % a)
                elif r < 0.95:
                    ops.append("P:%s:2.9:true:1" % a)
                else:
                    ops.append(rng.choice(["L:2.9:true", "L:2.9:false", "G:h:2.9,4.13"]))
            if rng.random() < 0.5:
                ops.append("Q:" + a)
        ops += ["L:2.9:true", "W", "ST", "CB", "E:h"] + ["E:" + a for a in adv]
        mk(cases, "adv", ops, {"adv": adv})
    # refusals must not depend on what exists and what it permits
    mk(cases, "adv", ["N:h", "S:h:c0:ok", "V:h:c0:ok", "N:a0"] + ["X:a0:%s:%s" % (e, m) for e, m in XEPS if e.startswith(("get-", "put-", "characteristics"))] + ["ST", "CB"], {"adv": ["a0"]})
    # a refused request of an unverified connection arrives while a verified controller's subscription request is in flight
    # (headers received, body not yet): later changes are notified to the controller, never to the unverified connection
    for _ in range(3 if tier == "quick" else 30):
        ch = rng.choice(["2.9", "4.9", "4.14"])
        v = "true" if ch != "4.14" else sc.num(77)
        ops = ["N:h", "S:h:c0:ok", "V:h:c0:ok", "N:a0", "PSPLIT:h:a0:%s" % ch, "L:%s:%s" % (ch, v), "W", "E:h", "E:a0", "Q:a0", "ST", "CB"]
        mk(cases, "inflight", ops, {"adv": ["a0"]})
    # a pairing that was used and then removed is not a pairing any more: its controller is an unpaired peer
    for _ in range(4 if tier == "quick" else 40):
        ops = ["N:h", "S:h:c0:ok", "V:h:c0:ok", "R:h:gone:add", "N:g", "V:g:gone:ok", "G:g:2.9", "K:g", "R:h:gone:remove",
               "N:x", "V:x:gone:ok", "G:x:2.9,4.13", "P:x:2.9:true:1", "Q:x", "ST", "CB"]
        mk(cases, "removed", ops, {"adv": ["x"]})
    # the same source port reused after close is a new connection: verified state must not carry over
    for _ in range(3 if tier == "quick" else 30):
        ops = ["N:h", "S:h:c0:ok", "V:h:c0:ok", "G:h:2.9", "K:h", "N:x", "X:x:accessories:GET", "Q:x", "ST"]
        mk(cases, "carry", ops, {"adv": ["x"]})
    # what a closed connection had (verification, subscriptions) is gone with it: connections accepted afterwards, which never
    # verify, receive nothing when the values the closed one had subscribed to change
    for nsub in (1, 3):
        subs = ["2.9", "4.14", "3.12"][:nsub]
        ops = ["N:h", "S:h:c0:ok", "N:v", "V:v:c0:ok"] + ["P:v:%s:-:1" % c for c in subs] + ["G:v:2.9", "K:v", "N:a0", "L:2.9:true", "L:4.14:%s" % sc.num(5), "L:3.12:%s" % sc.num(30), "W", "E:a0",
               "N:w", "V:w:c0:ok", "P:w:2.9:-:1", "K:w", "N:a1", "N:a2", "L:2.9:false", "W", "E:a1", "E:a2", "E:a0", "X:a0:accessories:GET", "X:a1:characteristics:GET", "CB", "ST"]
        mk(cases, "after-close", ops, {"adv": ["a0", "a1", "a2"]})
    return cases


def gen_c01_shared_addr(rng, tier):
    """implementation side only: an unverified connection and a verified one that the accessory sees under the SAME
    remote ip:port (the model has no notion of addresses: connections are independent there by construction)"""
    cases = []
    for i in range(3 if tier == "quick" else 20):
        ops = ["N:h", "S:h:c0:ok", "NS:a:b", "V:b:c0:ok", "G:b:2.9"]
        pool = ["G:a:2.9,4.13", "A:a", "P:a:2.9:true:1", "X:a:accessories:GET", "X:a:characteristics:GET", "X:a:characteristics-put:PUT", "X:a:pairings:POST", "X:a:resource:POST"]
        rng.shuffle(pool)
        ops += pool[:rng.randrange(2, 6)] + ["CB", "ST"]
        mk(cases, "shared-addr", ops, {"adv": ["a"]})
    # the unverified connection's requests are already with the server (behind a slow POST /identify) when the other connection,
    # same remote ip:port, completes pair-verify
    mk(cases, "shared-addr", ["N:h", "S:h:c0:ok", "NSI:c0:2.9:%d" % (3 if tier == "quick" else 12), "CB", "ST"], {"adv": ["a"]})
    return cases


def oracle_c01(c, obs):
    if obs.startswith("harness-panic") or obs.startswith("setup-error") or obs.startswith("DRIVER") or obs == "NO-OUTPUT":
        return "harness failure: " + obs[:100]
    pairs, ok = pair_tokens(c["line"], obs)
    adv = set(c["meta"].get("adv", []))
    if "NS=unsupported" in obs:
        return None        # this host cannot open two connections from one local ip:port
    refusals = {}
    for op, tok in pairs:
        p = op.split(":")
        if p[0] == "X" and ",body=" in tok and len(p) > 2:
            # a refusal discloses nothing: on one endpoint it reads the same whatever ids, values or subscriptions were asked for
            ep = "/characteristics" if p[2].startswith(("get-", "put-", "characteristics")) else p[2]
            b = tok.split(",body=")[1]
            if refusals.setdefault(ep, (b, op)) [0] != b:
                return "refusals on %s differ with what was asked for (%s vs %s): a refused request discloses which attributes exist / what they permit: %s | %s" % (
                    ep, refusals[ep][1], op, bytes.fromhex(refusals[ep][0]).decode("utf-8", "replace")[:80], bytes.fromhex(b).decode("utf-8", "replace")[:80])
        if p[0] == "NSI":
            if not (tok.startswith("NSI=refused") or tok == "NSI=unsupported"):
                return ("a connection that never pair-verified had its write served after ANOTHER connection with the same remote ip:port (to another "
                        "address of the accessory) completed pair-verify: verification carried over (%s)" % tok)
            continue
        if p[0] == "PSPLIT":
            if not tok.startswith("PSPLIT=204/470,canary=0"):
                return "a subscription request in flight while an unverified connection was refused: %s (expected 204 for the controller, 470 without attribute values for the other)" % tok[7:]
            continue
        if len(p) > 1 and p[1] in adv and p[0] != "NS":
            if "canary=1" in tok:
                return "a response to the unverified connection %s discloses attribute values (%s -> %s)" % (p[1], op, tok[:80])
            if p[0] == "X" and p[2] != "identify" and not (tok.startswith("X=470") or tok.startswith("X=closed") or tok.startswith("X=noconn")):
                return "unverified connection %s was not refused on a protected endpoint: %s -> %s" % (p[1], op, tok[:80])
            if p[0] in ("G", "A", "P") and not (tok.startswith(p[0] + "=470") or tok.endswith("=closed") or tok.endswith("=noconn")):
                return "unverified connection %s was served: %s -> %s" % (p[1], op, tok[:80])
            if p[0] == "Q" and tok.startswith("Q=served"):
                return "plaintext GET /accessories was served on %s" % p[1]
            if p[0] == "E" and tok not in ("E=", "E=noconn"):
                return "unverified connection %s received events: %s" % (p[1], tok[:80])
        if p[0] == "V" and c["kind"] == "removed" and p[1] in adv and "err" not in tok and "http" not in tok and "closed" not in tok:
            return "a controller whose pairing was removed completed pair-verify: %s -> %s" % (op, tok[:80])
        if p[0] == "ST" and tok != "stored=" + b"c0".hex():
            return "the set of stored pairings changed: " + tok
        if p[0] == "CB" and tok not in ("cb=",):
            return "application callbacks were invoked by requests of unverified connections: " + tok[:100]
    return None


# ------------------------------------------------------------------ C02
def gen_c02(rng, tier):
    cases = []
    msgs = ["start", "m3", "m3wrong", "m5", "m5flip", "m5short", "m5empty", "m5zerokey", "m5randkey", "m5wrongsigner", "m5inner",
            "badstep", "badmethod", "garbage", "a0", "aN", "a2N", "aempty", "wrongcode", "wrongproof", "noproof", "m5first",
            "aNforged", "a0forged", "aemptyforged", "wrongcodezero", "m5zeroempty", "m5emptyhkdf", "ok"]
    n = 60 if tier == "quick" else 1200
    for i in range(n):
        conns = ["a", "b"][:rng.randrange(1, 3)]
        ops = ["N:" + c for c in conns]
        k = rng.randrange(2, 9)
        for j in range(k):
            c = rng.choice(conns)
            if rng.random() < 0.25:
                # a correct exchange, message by message (interleaving with the other connection is up to the generator)
                seq = ["start", "m3", "m5"]
                for m in seq:
                    ops.append("S:%s:k%d%s:%s" % (c, j, c, m))
                    if rng.random() < 0.3 and len(conns) > 1:
                        o = [x for x in conns if x != c][0]
                        ops.append("S:%s:evil:%s" % (o, rng.choice(msgs[:-1])))
            else:
                ops.append("S:%s:k%d%s:%s" % (c, j, c, rng.choice(msgs)))
            ops.append("ST")
        # the accessories of one process (one shard of cases) have the same name and different setup codes
        mk(cases, "setup", ops, opts="pin=%s nacc=0" % valid_pin(rng))
    # after a RIGHT proof on this connection: every defective key exchange must store nothing (and ends the exchange)
    for v in ["m5flip", "m5short", "m5empty", "m5zerokey", "m5randkey", "m5wrongsigner", "m5inner", "m5zerosig", "m5nosig", "m5othersig"]:
        for follow in (["S:a:k:m5"], ["S:a:k:%s" % v], []):
            mk(cases, "proved-bad5", ["N:a", "S:a:k:start", "S:a:k:m3", "S:a:k:%s" % v, "ST"] + follow + ["ST"])
    # a transcript recorded from a completed exchange, replayed on another connection (with and without the pairing removed)
    for tail in (["N:b", "S:b:k0:replayok", "ST"],
                 ["V:a:k0:ok", "R:a:k0:remove", "ST", "N:b", "S:b:k0:replayok", "ST"],
                 ["N:b", "S:b:k1:start", "S:b:k1:m3", "N:c", "S:c:k0:replayok", "ST", "S:b:k1:m5", "ST"]):
        mk(cases, "replay", ["N:a", "S:a:k0:ok", "ST"] + tail)
    # ... and on the SAME connection (it is still open): after the exchange ended, start requests until one is accepted, then the
    # recorded proof and key exchange again -- with and without the pairing removed in between
    for mid in ([], ["N:v", "V:v:k0:ok", "R:v:k0:remove", "ST"]):
        mk(cases, "replay-same-conn", ["N:a", "S:a:k0:ok", "ST"] + mid + ["S:a:k0:replayok", "ST", "S:a:k0:replayok", "ST", "S:a:k0:start", "S:a:k0:replayok", "ST"])
    # controller identities of any length the store can keep (up to 122 bytes), also two that share a long prefix: what is
    # stored is exactly the name delivered, under exactly the key delivered with it
    for L in ([1, 36, 64, 65, 100, 120, 121, 122] if tier == "quick" else list(range(1, 123, 3)) + [119, 120, 121, 122]):
        base = bytes(rng.randrange(33, 127) for _ in range(L - 1))
        a, b = "h" + (base + b"A").hex(), "h" + (base + b"B").hex()
        mk(cases, "identity", ["N:a", "S:a:%s:ok" % a, "ST", "N:b", "S:b:%s:ok" % b, "ST", "N:c", "V:c:%s:ok" % a, "V:c:%s:ok" % b, "S:c:%s:ok" % (a[:-2] if L > 1 else "hff"), "ST"])
    # two connections open at the same time: one had an attempt refused, the other proves the code afterwards; the prover's
    # genuine key exchange delivered on the OTHER connection stores nothing (pair-setup state is per connection)
    for pre in (["S:a:evil:start", "S:a:evil:m3wrong"], ["S:a:evil:start", "S:a:evil:m3wrong", "S:a:evil:start"], ["S:a:evil:wrongcode"], ["S:a:evil:m5first"], []):
        ops = ["N:a"] + pre + ["N:b", "S:b:k:start", "S:b:k:m3", "S:a:k:m5of_b", "ST", "S:a:evil:m5zerokey", "ST", "S:b:k:m5", "ST"]
        mk(cases, "two-conns", ops)
    # more than a hundred wrong proofs (the specification's limit of authentication attempts), on one and on several
    # connections; afterwards a key exchange without any proof on a fresh connection, and a genuine pairing
    for tail in (["m5zeroempty"], ["m5emptyhkdf"], ["m5zerokey"]) if tier == "quick" else (["m5zeroempty"], ["m5emptyhkdf"], ["m5zerokey"], ["m5first"], ["m5randkey"]):
        ops = ["N:a"]
        for i in range(102):
            c = "a" if i % 3 else "w%d" % i
            if c != "a":
                ops.append("N:" + c)
            ops += ["S:%s:evil:start" % c, "S:%s:evil:m3wrong" % c]
        ops += ["ST", "N:b", "S:b:evil:start", "S:b:evil:m3wrong"] + ["S:b:evil:%s" % m for m in tail] + ["ST", "N:c", "S:c:evil:start", "S:c:evil:%s" % tail[0], "ST",
                "N:d", "S:d:good:ok", "ST"]
        mk(cases, "many-wrong", ops)
    # exhaustive short sequences over the adversary alphabet on one connection (no right proof anywhere)
    alpha = [m for m in msgs if m not in ("ok", "m3")]
    import itertools
    seqs = list(itertools.product(alpha, repeat=2))
    if tier == "quick":
        seqs = rng.sample(seqs, 40)
    for sq in seqs:
        ops = ["N:a"] + ["S:a:evil:%s" % m for m in sq] + ["S:a:evil:m5zerokey", "ST"]
        mk(cases, "advseq", ops)
    return cases


def spec_setup(ops):
    """pair-setup as the HAP specification describes it, per connection: who ends up stored"""
    st, stored = {}, set()
    for op in ops:
        p = op.split(":")
        if p[0] == "R" and len(p) > 3:
            # pairings changed by a verified admin connection (the generator only issues these on verified connections)
            if p[3] == "remove":
                stored.discard(p[2])
            elif p[3] == "add":
                stored.add(p[2])
            continue
        if p[0] != "S":
            continue
        c, ctrl, v = p[1], p[2], p[3]
        s = st.get(c, 0)
        seqs = {"ok": ["start", "m3", "m5"], "wrongcode": ["start", "bad3"], "wrongproof": ["start", "bad3", "bad5"], "noproof": ["start", "bad3", "bad5"],
                "a0": ["start", "bad3", "bad5"], "aN": ["start", "bad3", "bad5"], "a2N": ["start", "bad3", "bad5"], "aempty": ["start", "bad3", "bad5"],
                "aNforged": ["start", "bad3", "bad5"], "a0forged": ["start", "bad3", "bad5"], "aemptyforged": ["start", "bad3", "bad5"],
                "wrongcodezero": ["start", "bad3", "bad5"], "m5zeroempty": ["bad5"], "m5emptyhkdf": ["bad5"],
                "m5first": ["bad5"], "start": ["start"], "m3": ["m3"], "m3wrong": ["bad3"], "m5": ["m5"], "m5flip": ["bad5"], "m5short": ["bad5"],
                "m5empty": ["bad5"], "m5zerokey": ["bad5"], "m5randkey": ["bad5"], "m5wrongsigner": ["bad5"], "m5inner": ["inner5"],
                "m5zerosig": ["bad5"], "m5nosig": ["bad5"], "m5othersig": ["bad5"], "replayok": ["start", "bad3", "bad5"],
                "m5of_a": ["bad5"], "m5of_b": ["bad5"], "m5of_c": ["bad5"],
                "badstep": [], "badmethod": [], "garbage": []}[v]
        for m in seqs:
            if m == "start":
                s = 2 if s == 0 else 0
            elif m == "m3":
                s = 4 if s == 2 else 0
            elif m == "bad3":
                s = 0
            elif m == "m5":
                if s == 4:
                    stored.add(ctrl)
                    s = 6
                else:
                    s = 0
            elif m == "inner5":
                s = 6 if s == 4 else 0
            elif m == "bad5":
                s = 0
            if v in ("ok", "wrongcode") and s == 0:
                break
        st[c] = s
    return stored


def name_hex(tok):
    """a controller name token: "h<hex>" stands for the bytes it encodes"""
    if tok.startswith("h") and len(tok) > 1 and len(tok) % 2 == 1 and re.fullmatch(r"[0-9a-f]+", tok[1:]):
        return tok[1:]
    return tok.encode().hex()


def oracle_c02(c, obs):
    if obs.startswith("harness-panic") or obs.startswith("setup-error") or obs.startswith("DRIVER") or obs == "NO-OUTPUT":
        return "harness failure: " + obs[:100]
    ops = [o for o in c["line"].split(" ")[1:] if not o.startswith("tbl=")]
    pairs, ok = pair_tokens(c["line"], obs)
    done = []
    it = iter(pairs)
    for op in ops:
        done.append(op)
        if op.split(":")[0] in EMITS:
            try:
                o2, tok = next(it)
            except StopIteration:
                return "missing observations"
            if op == "ST":
                want = "stored=" + "+".join(sorted(name_hex(x) for x in spec_setup(done)))
                if tok != want:
                    return "stored pairings are %s, but only %s delivered a valid setup-code proof and a genuine key exchange" % (tok, want)
    return None


# ------------------------------------------------------------------ C03
def gen_c03(rng, tier):
    cases = []
    n = 50 if tier == "quick" else 800
    for _ in range(n):
        ops = ["N:h", "S:h:c0:ok"]
        if rng.random() < 0.5:
            ops += ["S:h:c1:start"]      # a second pairing attempt is refused while paired? (observed, not asserted)
        for i in range(rng.randrange(1, 4)):
            c = "v%d" % i
            ops.append("N:" + c)
            for _ in range(rng.randrange(1, 4)):
                ctrl = rng.choice(["c0", "c0", "zz"])
                ops.append("V:%s:%s:%s" % (c, ctrl, rng.choice(ADV_VERIFY + ["ok"] if ctrl == "zz" else ADV_VERIFY)))
            r = rng.random()
            if r < 0.5:
                ops.append("Q:" + c)
            elif r < 0.8:
                ops += ["V:%s:c0:ok" % c, "G:%s:2.9" % c]
            else:
                ops += ["G:%s:2.9" % c, "Q:" + c]
        mk(cases, "verify", ops)
    # the finish of an EARLIER exchange after the accessory accepted another start on the same connection (a rejected
    # start in between, then a small-order all-zero key): the signature covers keys that are not this exchange's
    for pre in (["V:c:c0:badstartkeep"], ["V:c:c0:startzerokeep"], ["V:c:c0:startzerokeep", "V:c:c0:startzerokeep"], []):
        for z in ("startzerokeep", "badstartkeep"):
            ops = ["N:h", "S:h:c0:ok", "N:c", "V:c:c0:startonly"] + pre + ["V:c:c0:%s" % z, "V:c:c0:finish", "G:c:2.9", "Q:c"]
            mk(cases, "stale-finish", ops)
    # a pairing that was used (looked up) and then removed must not verify again; keys of the wrong length never verify
    for _ in range(3 if tier == "quick" else 30):
        ops = ["N:h", "S:h:c0:ok", "V:h:c0:ok", "R:h:gone:add", "N:g", "V:g:gone:ok", "G:g:2.9", "R:h:gone:remove",
               "N:x", "V:x:gone:ok", "G:x:2.9", "Q:x", "N:y", "V:y:gone:badsig", "Q:y"]
        mk(cases, "removed", ops)
        k = rng.choice(["addshortkey", "addlongkey"])
        ops = ["N:h", "S:h:c0:ok", "V:h:c0:ok", "R:h:odd:%s" % k, "N:x", "V:x:odd:ok", "G:x:2.9", "Q:x", "N:y", "V:y:odd:badsig", "V:y:c0:ok", "G:y:2.9"]
        mk(cases, "oddkey", ops)
    # long controller names (HAP identifiers have 36 characters; the store keeps names of up to 122 bytes): a name that
    # differs from a paired one only in its last byte, or only after a long common prefix, verifies nobody
    for L in ([67, 80, 100, 122] if tier == "quick" else [37, 64, 66, 67, 70, 71, 80, 100, 120, 121, 122]):
        base = bytes(rng.randrange(33, 127) for _ in range(L - 1))
        a, b = "h" + (base + b"A").hex(), "h" + (base + b"B").hex()
        ops = ["N:h", "S:h:%s:ok" % a, "ST", "N:v", "V:v:%s:ok" % a, "G:v:2.9", "N:x", "V:x:%s:unknowntail" % a, "Q:x",
               "N:y", "V:y:%s:ok" % b, "Q:y", "N:z", "V:z:%s:unknown" % a, "Q:z"]
        mk(cases, "longname", ops)
    # the controller uses the exchange key pair of an accepted exchange again, on other connections, with finishes whose
    # signature is not valid for the exchange at hand
    for i in range(3 if tier == "quick" else 20):
        ops = ["N:h", "S:h:c0:ok", "N:v", "V:v:c0:ok", "G:v:2.9"]
        for k in range(rng.randrange(1, 4)):
            ops += ["N:x%d" % k, "V:x%d:c0:%s" % (k, rng.choice(["samekey-badsig", "samekey-reordered"])), rng.choice(["Q:x%d" % k, "G:x%d:2.9" % k])]
        mk(cases, "samekey", ops)
    # a finish that is malformed although name and signature inside it are genuine (one more byte behind the items; ...)
    for v in ("inner-trailing", "inner-garbage", "short16"):
        mk(cases, "malformed-finish", ["N:h", "S:h:c0:ok", "N:x", "V:x:c0:%s" % v, "G:x:2.9", "Q:x", "N:y", "V:y:c0:%s" % v, "V:y:c0:ok", "G:y:2.9"])
    # a recorded genuine exchange replayed on hundreds of new connections: the accessory's exchange key never repeats
    for i in range(1 if tier == "quick" else 4):
        mk(cases, "replay-later", ["N:h", "S:h:c0:ok", "VR:c0:%d" % (300 if tier == "quick" else 700), "N:v", "V:v:c0:ok", "G:v:2.9"])
    for _ in range(10 if tier == "quick" else 150):
        # a controller entity added WITHOUT a public key must never verify anybody; abandoned starts must not wedge a connection
        ops = ["N:h", "S:h:c0:ok", "V:h:c0:ok", "R:h:nokey:addnokey", "N:v"]
        for _ in range(rng.randrange(1, 4)):
            ops.append("V:v:%s:%s" % (rng.choice(["nokey", "c0"]), rng.choice(["badsig", "startonly", "startonly", "reordered", "keylen31"])))
        ops += ["Q:v", "N:w"] + ["V:w:c0:startonly"] * rng.randrange(1, 4) + ["V:w:c0:ok", "V:w:c0:ok", "G:w:2.9"]
        mk(cases, "nokey", ops)
    return cases


def oracle_c03(c, obs):
    if obs.startswith("harness-panic") or obs.startswith("setup-error") or obs.startswith("DRIVER") or obs == "NO-OUTPUT":
        return "harness failure: " + obs[:100]
    pairs, ok = pair_tokens(c["line"], obs)
    genuine = set()
    stored = {"c0"}
    own, acc = {}, {}      # per connection: is the accessory's pair-verify key still the one of the controller's recorded exchange?
    for op, tok in pairs:
        p = op.split(":")
        if p[0] == "V":
            accepted = tok.startswith("V=st2")
            if p[3] in ("startonly",):
                own[p[1]] = acc[p[1]] = (own.get(p[1], 0) + 1) if accepted else None
                if not accepted:
                    own[p[1]] = -1
            elif p[3] == "startzerokeep" and accepted:
                acc[p[1]] = -2
        if p[0] == "R" and tok == "R=st2":
            if p[3] == "add":
                stored.add(p[2])
            elif p[3] == "remove":
                stored.discard(p[2])
        if p[0] == "S" and p[3] == "ok" and tok.startswith("S=st2/st4/st6"):
            stored.add(p[2])
        honest_ok = p[0] == "V" and p[2] in stored and (p[3] == "ok" or (p[3] == "finish" and own.get(p[1]) is not None and own.get(p[1]) == acc.get(p[1])))
        if honest_ok and (tok.startswith("V=st2/st4[") or tok.startswith("V=st4[")) and "err" not in tok:
            genuine.add(p[1])
        if p[0] == "V" and not honest_ok:
            # every other outcome is answered with an error
            last = tok[2:].split("[")[0].split("/")[-1]
            if p[3] not in ("startonly", "startzerokeep") and not (last.startswith("http") or "err" in last or last == "closed"):
                return "pair-verify %s was not answered with an error: %s" % (op, tok)
            if p[3] == "finish" and "closed" in last:
                return "pair-verify %s was answered by dropping the connection: %s" % (op, tok)
        if p[0] == "VR" and tok != "VR=fresh":
            return "a recorded pair-verify exchange replayed on a later connection: %s (the accessory's exchange key repeated; no valid signature over THIS exchange was presented)" % tok[3:]
        if p[0] == "Q" and p[1] not in genuine and not tok.startswith("Q=refused470"):
            return "connection %s never presented a valid signature but is no longer answered in plaintext / was served: %s" % (p[1], tok)
        if p[0] == "G" and p[1] not in genuine and p[1] != "h" and not (tok.startswith("G=470") or tok.endswith("closed") or tok.endswith("noconn")):
            return "unverified connection %s was served: %s" % (p[1], tok[:80])
        if p[0] == "G" and p[1] in genuine and not tok.startswith("G=200"):
            return "verified connection %s is not served: %s" % (p[1], tok[:80])
    if c["kind"] == "nokey" and "w" not in genuine:
        return "after abandoned start requests the same connection can no longer complete a correct pair-verify: %s" % [t for o, t in pairs if o.startswith("V:w:")]
    return None


# ------------------------------------------------------------------ C04
def valid_pin(rng):
    trivial = {"12345678", "87654321", "00000000", "11111111", "22222222", "33333333", "44444444", "55555555", "66666666", "77777777", "88888888", "99999999"}
    while True:
        p = "%08d" % rng.randrange(10 ** 8)
        if p not in trivial:
            return p


def gen_c04(rng, tier):
    cases = []
    names = [b"A", b"x" * 64, "contrôleur-Ω-\U0001F600".encode(), b"8B6E7E2C-1A2B-4C3D-9E8F-001122334455", bytes(range(1, 33))]
    n = 14 if tier == "quick" else 300
    for i in range(n):
        pin = valid_pin(rng)
        nacc = rng.choice([0, 0, 5, 30] if tier == "quick" else [0, 3, 20, 100, 150])
        name = rng.choice(names) if i >= len(names) else names[i]
        ctrl = "h" + name.hex()
        big = "x" * rng.choice([10, 1500, 3000])
        jtok = "J" + json.dumps(big).encode().hex() + "~" + big.encode().hex()
        ops = ["N:a", "S:a:%s:ok" % ctrl, "ST", "N:b", "V:b:%s:ok" % ctrl, "A:b", "G:b:2.9,3.12", "P:b:4.13:%s:-" % jtok, "G:b:4.13", "TXT"]
        # the controller's TCP segments need not coincide with requests, TLV items or frames
        wseg = rng.choice([0, 0, 53, 7, 211]) if nacc <= 30 else 0
        mk(cases, "honest", ops, {"nacc": nacc, "ctrl": name.hex(), "big": big},
           opts="pin=%s nacc=%d fsz=%d wseg=%d" % (pin, nacc, rng.choice([1024, 1024, 500, 100, 37]), wseg))
    # many verifications in a row, several driver processes at once: a verification must never fail intermittently
    # (not retried: an intermittent failure of an honest handshake is a violation, see fix e748ac2)
    for i in range(16 if tier == "quick" else 64):
        ops = ["N:h", "S:h:c0:ok"]
        for k in range(20):
            ops += ["N:v%d" % k, "V:v%d:c0:ok" % k, "G:v%d:2.9" % k]
        mk(cases, "honest-repeat", ops, {}, opts="nacc=0")
        cases[-1]["noretry"] = True
    # pair-verify again on a connection that is already encrypted (new keys from the next request on), several times
    for i in range(2 if tier == "quick" else 12):
        ops = ["N:h", "S:h:c0:ok", "N:v", "V:v:c0:ok", "G:v:2.9"]
        for k in range(rng.randrange(1, 4)):
            ops += ["V:v:c0:ok", rng.choice(["G:v:2.9", "A:v", "P:v:2.9:%s:-" % rng.choice(["true", "false"])]), "G:v:2.9,4.13"]
        mk(cases, "honest-rekey", ops, {}, opts="nacc=%d" % rng.choice([0, 12]))
        cases[-1]["noretry"] = True
    # more than a thousand pair-setup exchanges M1..M4 on fresh connections: the accessory's SRP key is new every time
    # (about one in 256 has a leading zero byte); every one must succeed
    for i in range(1 if tier == "quick" else 4):
        mk(cases, "srp-many", ["SRPMANY:%d" % (1200 if tier == "quick" else 3000)], {}, opts="pin=%s nacc=0" % valid_pin(rng))
        cases[-1]["noretry"] = True
    for i in range(4 if tier == "quick" else 40):
        pin = valid_pin(rng)
        ops = ["N:a", "S:a:c0:wrongcode", "ST", "N:b", "S:b:c0:ok", "ST"]
        mk(cases, "wrongcode", ops, {}, opts="pin=%s nacc=0" % pin)
    for i in range(4 if tier == "quick" else 40):
        # a mistyped code, then the right one on the SAME connection (after at most one rejected start)
        pin = valid_pin(rng)
        ops = ["N:a", "S:a:c0:%s" % rng.choice(["wrongcode", "wrongproof", "m5flip"]), "S:a:c0:ok", "S:a:c0:ok", "ST", "V:a:c0:ok", "G:a:2.9"]
        mk(cases, "retry", ops, {}, opts="pin=%s nacc=0" % pin)
    return cases


def oracle_c04(c, obs):
    if obs.startswith("harness-panic") or obs.startswith("setup-error") or obs.startswith("DRIVER") or obs == "NO-OUTPUT":
        return "harness failure: " + obs[:100]
    pairs, ok = pair_tokens(c["line"], obs)
    for op, tok in pairs:
        p = op.split(":")
        if c["kind"] == "honest-rekey":
            if p[0] == "V" and tok != "V=st2/st4[M2ok]":
                return "pair-verify (again) on an encrypted connection did not complete: " + tok
            if p[0] in ("G", "A", "P") and not tok.startswith(p[0] + "=20"):
                return "after verifying again on the same connection the controller is no longer served: %s -> %s" % (op, tok[:60])
        if p[0] == "SRPMANY" and tok != "SRPMANY=ok":
            return "pair-setup with the right code, on fresh connections: " + tok[8:].replace("-", " ")
        if c["kind"] == "honest":
            if p[0] == "S" and tok != "S=st2/st4/st6[M2okM6ok]":
                return "pair-setup of a specification-conformant controller did not complete / a proof or signature of the accessory did not verify: " + tok
            if p[0] == "V" and tok != "V=st2/st4[M2ok]":
                return "pair-verify did not complete / the accessory's signature did not verify: " + tok
            if p[0] == "ST" and tok != "stored=" + c["meta"]["ctrl"]:
                return "the stored entity is not the controller that paired: " + tok
            if p[0] == "A" and not tok.startswith("A=200:n%d," % (4 + c["meta"]["nacc"])):
                return "the encrypted /accessories answer of %d accessories did not arrive intact: %s" % (4 + c["meta"]["nacc"], tok[:60])
            if p[0] == "G" and p[2] == "4.13" and tok != "G=200:4.13=%s,canary=0" % json.dumps(c["meta"]["big"]):
                return "the value written over several frames was not read back: " + tok[:80]
            if p[0] == "TXT" and tok != "sf=0":
                return "paired accessory still advertises itself as discoverable"
        elif c["kind"] == "honest-repeat":
            if p[0] == "S" and tok != "S=st2/st4/st6[M2okM6ok]":
                return "pair-setup of a specification-conformant controller did not complete: " + tok
            if p[0] == "V" and tok != "V=st2/st4[M2ok]":
                return "pair-verify of a paired, specification-conformant controller failed (verification %s of 20 in a row): %s" % (p[1], tok)
            if p[0] == "G" and not tok.startswith("G=200:"):
                return "the first encrypted request after pair-verify failed: " + tok
        else:
            if op == "S:a:c0:wrongcode" and tok != "S=st2/st4/err2[]":
                return "a wrong setup code is not answered with authentication error 2: " + tok
    if c["kind"] == "retry":
        tries = [t for o, t in pairs if o == "S:a:c0:ok"]
        if "S=st2/st4/st6[M2okM6ok]" not in tries:
            return "after a failed attempt the controller cannot pair with the right setup code on the same connection: %s" % tries
        if not dict(pairs).get("G:a:2.9", "").startswith("G=200"):
            return "paired and verified controller is not served: %s" % dict(pairs).get("G:a:2.9", "")[:60]
    if c["kind"] == "wrongcode":
        sts = [t for o, t in pairs if o == "ST"]
        if sts != ["stored=", "stored=" + b"c0".hex()]:
            return "store after a wrong code / after the right code: %s" % sts
    return None


# ------------------------------------------------------------------ C09 / C11 (HTTP)
def jstr(s):
    return "J" + json.dumps(s).encode().hex() + "~" + s.encode().hex()


STRS = ["plain", "quo\"te", "back\\slash", "<html>&amp;", "line sep", "emoji\U0001F600", "café", "a" * 2100, ""]


def gen_c09(rng, tier):
    cases = []
    n = 40 if tier == "quick" else 700
    for _ in range(n):
        ops = ["N:a", "S:a:c0:ok", "V:a:c0:ok"]
        exp = {}
        for _ in range(rng.randrange(3, 10)):
            r = rng.random()
            if r < 0.2:
                v = rng.choice(["true", "false"])
                ops.append(rng.choice(["P:a:2.9:%s:-", "L:2.9:%s"]) % v)
            elif r < 0.4:
                x = rng.choice([10, 10.5, 20, 25.5, 38, 37.5])
                ops.append(rng.choice(["P:a:3.12:%s:-", "L:3.12:%s"]) % sc.num(x))
            elif r < 0.55:
                x = rng.choice([0, 1, 2, 3])
                ops.append(rng.choice(["P:a:3.10:%s:-", "L:3.10:%s"]) % sc.num(x))
            elif r < 0.75:
                s = rng.choice(STRS)
                ops.append(rng.choice(["P:a:4.13:%s:-", "L:4.13:%s"]) % jstr(s))
            elif r < 0.9:
                # 32-bit unsigned without declared bounds: the whole range, in both directions; a write may carry "ev" too
                x = rng.choice([0, 1, 255, 65536, 2147483647, 2147483648, 3000000000, 4294967295])
                ops.append(rng.choice(["P:a:4.14:%s:-", "P:a:4.14:%s:1", "P:a:4.14:%s:0", "L:4.14:%s"]) % sc.num(x))
            elif r < 0.93:
                # a signed integer with a range around zero, written in every number notation JSON has
                txt, x = rng.choice([("-30", -30), ("-90", -90), ("45", 45), ("7.0", 7), ("9e1", 90), ("-3e1", -30), ("0.0", 0), ("6E0", 6)])
                u = x % (1 << 64)
                ops.append(rng.choice(["P:a:4.18:%s@%016x@%d:-" % (txt, sc.fbits(x), u), "L:4.18:%s" % sc.num(x)]))
            elif r < 0.95:
                # value and event subscription in ONE write entry
                ops.append("P:a:2.9:%s:%s" % (rng.choice(["true", "false"]), rng.choice(["1", "0"])))
            ids = rng.sample(["2.9", "3.12", "3.10", "4.13", "4.12", "4.14", "1.5", "2.99", "9.1", "3.11", "4.11", "4.18"], rng.randrange(1, 6))
            ops.append("G:a:" + ",".join(ids))
            if rng.random() < 0.3:
                ops.append("A:a")
            if rng.random() < 0.3:
                ops.append("CB")
        if rng.random() < 0.5:
            # a value of several frames, in frames of any size, all in ONE segment (the accessory's read gets several frames at once)
            big = "y" * rng.choice([700, 1500, 3000])
            ops += ["P:a:4.13:J%s~%s:-" % (json.dumps(big).encode().hex(), big.encode().hex()), "G:a:4.13"]
        mk(cases, "rw", ops, opts="nacc=%d fsz=%d" % (rng.choice([0, 0, 0, 12]), rng.choice([1024, 1024, 300, 100, 37])))
    ops = ["N:a", "S:a:c0:ok", "V:a:c0:ok"]
    for txt, x in [("-30", -30), ("7.0", 7), ("9e1", 90), ("-9e1", -90), ("0.0", 0), ("45", 45)]:
        ops += ["P:a:4.18:%s@%016x@%d:-" % (txt, sc.fbits(x), x % (1 << 64)), "G:a:4.18", "CB"]
    ops += ["L:4.18:%s" % sc.num(-45), "G:a:4.18", "A:a"]
    mk(cases, "rw", ops)
    # bridges with two-digit accessory ids: ids whose digits can be split in more than one way (1.19 / 11.9, 1.12 / 11.2, 2.19 / 21.9)
    for i in range(3 if tier == "quick" else 30):
        ops = ["N:a", "S:a:c0:ok", "V:a:c0:ok"]
        pool = ["1.19", "11.9", "1.12", "11.2", "1.17", "11.7", "2.19", "21.9", "1.110", "11.10", "12.9", "1.29", "2.9", "3.12"]
        for _ in range(rng.randrange(3, 8)):
            r = rng.random()
            if r < 0.35:
                ops.append("P:a:%s:%s:-" % (rng.choice(["11.9", "12.9", "21.9", "2.9"]), rng.choice(["true", "false"])))
            elif r < 0.45:
                ops.append("L:%s:%s" % (rng.choice(["11.9", "21.9"]), rng.choice(["true", "false"])))
            ops.append("G:a:" + ",".join(rng.sample(pool, rng.randrange(1, 6))))
        ops.append("A:a")
        mk(cases, "rw", ops, opts="nacc=20")
    # the controller keeps fetching the whole attribute database (an answer of many socket writes) while the application changes
    # a characteristic it subscribed to: every answer must be readable (no EVENT inside it), every change notified once, in order
    for i in range(2 if tier == "quick" else 8):
        mk(cases, "read-while-changing", ["N:p", "S:p:c0:ok", "N:c0", "V:c0:c0:ok", "P:c0:4.14:-:1", "STORMA:c0:%d" % (3000 if tier == "quick" else 8000)], opts="nacc=30")
        cases[-1]["noretry"] = True
    # two controllers reading at the same time (a database of many chunks against long /characteristics answers)
    for i in range(2 if tier == "quick" else 12):
        mk(cases, "race", ["N:a", "S:a:c0:ok", "V:a:c0:ok", "N:b", "V:b:c0:ok", "RACE:a:b:%d" % (40 if tier == "quick" else 150)], opts="nacc=%d" % rng.choice([24, 40]))
    return cases


def oracle_c09(c, obs):
    if obs.startswith("harness-panic") or obs.startswith("setup-error") or obs.startswith("DRIVER") or obs == "NO-OUTPUT":
        return "harness failure: " + obs[:100]
    rows = sc.rows_for(c["line"])
    cur = {k: v["value"] for k, v in rows.items()}
    pairs, ok = pair_tokens(c["line"], obs)
    ops = [o for o in c["line"].split(" ")[1:] if not (o.startswith("tbl=") or o.startswith("nacc=") or o.startswith("pin=") or o.startswith("fsz="))]
    it = iter(pairs)
    lastwrite = None
    for op in ops:
        p = op.split(":")
        tok = None
        if p[0] in EMITS:
            _, tok = next(it)
        if p[0] == "P" and ":".join(p[3:-1]) == "-":
            if not tok.startswith("P=204"):
                return "a subscription was not accepted: %s -> %s" % (op[:60], tok)
            continue
        if p[0] in ("P", "L"):
            cid = p[2] if p[0] == "P" else p[1]
            vt = ":".join(p[3:-1]) if p[0] == "P" else ":".join(p[2:])
            if vt.startswith("J"):
                want = "s:" + vt.split("~")[1]
            elif "@" in vt:
                want = "num:%r" % float(vt.split("@")[0])
            else:
                want = sc.canon_val(vt)
            old = cur.get(cid)
            cur[cid] = want
            if p[0] == "P":
                if tok != "P=204:-":
                    return "a valid write was not accepted: %s -> %s" % (op[:60], tok)
                lastwrite = (cid, want, sc.canon_model_val(old) if old else None)
        if p[0] == "G":
            ids = p[2].split(",")
            m = re.match(r"^G=(\d+):(.*),canary=\d$", tok, flags=re.S)
            if not m:
                return "GET /characteristics not answered: " + tok[:80]
            ent = sc._canon_entries(m.group(2), sc.canon_val).split(",") if m.group(2) != "-" else []
            got_ids = [e.split("=")[0].split("!")[0] for e in ent]
            if got_ids != ids:
                return "requested ids %s, answered %s (each id exactly once and in order)" % (ids, got_ids)
            missing = [i for i in ids if i not in rows]
            if (m.group(1) == "207") != bool(missing):
                return "status %s with missing ids %s" % (m.group(1), missing)
            for i, e in zip(ids, ent):
                if i in rows:
                    if "r" in rows[i]["perms"]:
                        want = sc.canon_model_val(cur[i])
                        val = e.split("=", 1)[1].split("!")[0] if "=" in e else None
                        if val != want:
                            return "GET of %s returns %s, the value set is %s" % (i, val, want)
                    if m.group(1) == "207" and not e.endswith("!0"):
                        return "multi-status answer without a status for %s" % i
                else:
                    if not e.endswith("!-70402"):
                        return "missing id %s is not answered with status -70402: %s" % (i, e)
        if p[0] == "STORMA" and tok != "STORMA=ok":
            return "the controller kept fetching /accessories while the application changed a characteristic it subscribed to: " + tok[7:].replace("-", " ")
        if p[0] == "RACE" and tok != "RACE=ok":
            return "two controllers reading at the same time: an answer was not what a controller reading alone gets (%s)" % tok[5:80]
        if p[0] == "A":
            m = re.match(r"^A=200:n\d+,canary=\d;(.*)$", tok, flags=re.S)
            if not m:
                return "/accessories not served to a verified connection: " + tok[:60]
            ent = dict(e.split("=", 1) for e in sc._canon_entries(m.group(1), sc.canon_val).split(",") if "=" in e)
            for i, v in cur.items():
                if i in rows and "r" in rows[i]["perms"] and v != "nil" and ent.get(i) != sc.canon_model_val(v):
                    return "/accessories carries %s for %s, the value set is %s" % (ent.get(i), i, sc.canon_model_val(v))
    return None


def gen_c11(rng, tier):
    cases = []
    n = 30 if tier == "quick" else 400
    for _ in range(n):
        ops = ["N:a", "S:a:c0:ok", "V:a:c0:ok", "N:b", "V:b:c0:ok", "P:b:2.9:-:1"]
        for _ in range(rng.randrange(3, 9)):
            r = rng.random()
            if r < 0.2:
                ops += ["P:a:4.12:%s:-" % sc.num(rng.choice([1, 9, 200])), "G:a:4.12", "CB"]
            elif r < 0.35:
                ops += ["P:a:3.11:%s:-" % sc.num(rng.choice([11, 30])), "G:a:3.11", "CB"]
            elif r < 0.5:
                ops += ["P:a:4.11:%s:-" % jstr(rng.choice(["secret", "x"])), "G:a:4.11", "A:a", "CB"]
            elif r < 0.65:
                ops += ["P:b:4.13:-:%s" % rng.choice(["1", "1", "n1", "s1", "st"]), "L:4.13:%s" % jstr("v%d" % rng.randrange(100)), "W", "E:b"]
            elif r < 0.8:
                ops += ["P:b:4.12:-:%s" % rng.choice(["1", "n1", "s1", "0"]), "L:4.12:%s" % sc.num(rng.randrange(50)), "W", "E:b"]
            elif r < 0.85:
                ops += ["P:b:1.2:-:1", "P:a:1.2:true:-", "W", "E:b", "CB"]
            elif r < 0.93:
                # subscribed to an observable characteristic of ONE accessory; a characteristic without event permission
                # of ANOTHER accessory that happens to have the same instance id changes
                ops += ["P:b:3.12:-:1", "L:4.12:%s" % sc.num(rng.randrange(50)), "W", "E:b",
                        "P:b:4.9:-:1", "L:4.13:%s" % jstr("w%d" % rng.randrange(100)), "W", "E:b"]
            elif r < 0.96:
                # several entries in ONE write: a subscription that must be refused (no event permission) followed by entries
                # that are accepted
                bad = rng.choice(["4.13", "1.5", "4.12"])
                ops += ["PM:b:%s~-~1+2.9~-~1" % bad, "PM:b:%s~-~1+2.9~%s~-+3.12~-~1" % (bad, rng.choice(["true", "false"])), "W", "E:b"]
            elif r < 0.98:
                # write + events but not readable: subscribers learn that it changed, never the value
                ops += ["P:b:4.15:-:1", "P:a:4.15:%s:-" % jstr("secret%d" % rng.randrange(100)), "W", "E:b", "L:4.15:%s" % jstr("local%d" % rng.randrange(100)), "W", "E:b", "G:b:4.15", "A:b"]
            else:
                ops += ["P:a:2.9:%s:-" % rng.choice(["true", "false"]), "W", "E:b", "CB"]
        mk(cases, "perms", ops)
    # directed
    mk(cases, "perms", ["N:a", "S:a:c0:ok", "V:a:c0:ok", "N:b", "V:b:c0:ok", "P:b:4.17:-:1", "P:a:4.17:%s:-" % sc.num(9), "G:a:4.17", "CB", "L:4.17:%s" % sc.num(5), "W", "E:b", "G:b:4.17",
                        "P:a:4.12:%s:-" % sc.num(9), "G:a:4.12", "P:b:4.12:-:1", "CB"])
    mk(cases, "perms", ["N:a", "S:a:c0:ok", "V:a:c0:ok", "N:b", "V:b:c0:ok", "PM:b:4.13~-~1+2.9~-~1", "PM:b:1.5~-~1+4.14~-~1+2.9~true~-", "L:2.9:false", "W", "E:b"])
    mk(cases, "perms", ["N:a", "S:a:c0:ok", "V:a:c0:ok", "N:b", "V:b:c0:ok", "P:b:4.15:-:1", "P:a:4.15:%s:-" % jstr("secret"), "W", "E:b", "L:4.15:%s" % jstr("local"), "W", "E:b", "G:b:4.15", "A:b"])
    # a characteristic from a library constructor that the application restricted to read + events (+ hidden): a set of the same size
    mk(cases, "perms", ["N:a", "S:a:c0:ok", "V:a:c0:ok", "N:b", "V:b:c0:ok", "P:a:4.19:%s:-" % sc.num(50), "G:a:4.19", "CB", "P:b:4.19:-:1", "L:4.19:%s" % sc.num(7), "W", "E:b",
                        "P:a:4.19:%s:-" % sc.num(60), "G:b:4.19", "CB", "A:b"])
    # a write of several entries that starts with an entry for an id that does not exist (a controller with a stale database):
    # the entries behind it keep their own permissions
    for first in ("9.99~-~1", "4.99~-~1", "9.99~true~1"):
        mk(cases, "perms", ["N:a", "S:a:c0:ok", "V:a:c0:ok", "N:b", "V:b:c0:ok", "PM:b:%s+4.12~%s~-" % (first, sc.num(5)), "G:b:4.12", "L:4.12:%s" % sc.num(9), "W", "E:b", "CB",
                            "PM:b:%s+4.17~%s~-+2.9~-~1" % (first, sc.num(7)), "L:4.17:%s" % sc.num(4), "L:2.9:true", "W", "E:b", "CB", "G:b:4.17"])
    return cases


def oracle_c11(c, obs):
    if obs.startswith("harness-panic") or obs.startswith("setup-error") or obs.startswith("DRIVER") or obs == "NO-OUTPUT":
        return "harness failure: " + obs[:100]
    rows = sc.rows_for(c["line"])
    pairs, ok = pair_tokens(c["line"], obs)
    ops = [o for o in c["line"].split(" ")[1:] if not (o.startswith("tbl=") or o.startswith("nacc=") or o.startswith("pin=") or o.startswith("fsz="))]
    it = iter(pairs)
    nowrite = set()
    evref = set()
    localv = {}
    for op in ops:
        p = op.split(":")
        tok = None
        if p[0] in EMITS:
            _, tok = next(it)
        if p[0] == "L":
            vt = ":".join(p[2:])
            want = ("s:" + vt.split("~")[1]) if vt.startswith("J") else ("num:%r" % float(vt.split("@")[0]) if "@" in vt else sc.canon_val(vt))
            if want.startswith("num:") and p[1] in rows:
                x = float(want[4:])
                for b, f in (("min", max), ("max", min)):
                    if rows[p[1]][b] != "-":
                        x = f(x, float(sc.canon_model_val(rows[p[1]][b])[4:]))
                want = "num:%r" % x
            localv[p[1]] = want
        if p[0] == "P":
            cid, ev = p[2], p[-1]
            val = ":".join(p[3:-1])
            perms = rows[cid]["perms"]
            if val != "-" and "w" not in perms:
                nowrite.add(cid)
            if ev != "-" and "e" not in perms:
                evref.add(cid)
                if "!-70406" not in tok:
                    return "subscribing to %s (no event permission) was not rejected with a status: %s" % (cid, tok)
        if p[0] == "PM":
            for ent in p[2].split("+"):
                cid, val, ev = ent.split("~")
                if cid not in rows:
                    continue
                if val != "-" and "w" not in rows[cid]["perms"]:
                    nowrite.add(cid)
                if ev != "-" and "e" not in rows[cid]["perms"] and (cid + "!-70406") not in tok:
                    return "subscribing to %s (no event permission) inside a write of several entries was not rejected with a status: %s" % (cid, tok[:100])
        if p[0] == "G":
            for e in re.sub(r",canary=\d$", "", tok.split(":", 1)[1] if ":" in tok else "").split(","):
                cid = e.split("=")[0].split("!")[0]
                if cid in rows and "r" not in rows[cid]["perms"] and "=" in e:
                    return "%s has no read permission but a value is revealed: %s" % (cid, e[:60])
                if cid in nowrite and cid in rows and "=" in e:
                    init = localv.get(cid, sc.canon_model_val(rows[cid]["value"]))       # what the application last set, else the initial value
                    got = sc.canon_val(e.split("=", 1)[1].split("!")[0])
                    if got != init:
                        return "remote write changed %s although it has no write permission: %s" % (cid, e[:60])
        if p[0] == "A":
            for cid in rows:
                if "r" not in rows[cid]["perms"] and re.search(r"[;,]%s=" % re.escape(cid), tok):
                    return "/accessories reveals a value for %s which has no read permission" % cid
        if p[0] == "CB":
            for e in tok[3:].split(","):
                cid = e.split("=")[0]
                if cid in rows and "w" not in rows[cid]["perms"]:
                    return "remote-update callback invoked for %s which has no write permission" % cid
        if p[0] == "E":
            for e in tok[2:].split(";"):
                cid = e.split("=")[0]
                if cid in rows and "e" not in rows[cid]["perms"]:
                    return "an event was delivered for %s which does not permit events" % cid
                if cid in rows and "r" not in rows[cid]["perms"] and "=" in e and e.split("=", 1)[1] not in ("null", ""):
                    return "an event reveals the value of %s, which has no read permission, to a subscriber: %s" % (cid, e[:60])
    return None


# ------------------------------------------------------------------ C10
def gen_c10(rng, tier):
    cases = []
    n = 30 if tier == "quick" else 500
    chars = ["2.9", "4.9", "3.12", "3.10", "4.13", "4.16"]      # 4.13 permits read and write but NOT events; 4.16 is an observable string
    texts = ["plain", "HTTP/1.0", "speaks HTTP/1.0 and HTTP/1.0", "EVENT/1.0 200 OK", "a\r\n\r\nb", "Content-Length: 0", "ü€😀", ""]

    def val_for(ch):
        if ch in ("2.9", "4.9"):
            return rng.choice(["true", "false"])
        if ch == "3.12":
            return sc.num(rng.choice([10, 20, 30.5, 38, 5, 50, 100, 9.5]))
        if ch == "4.13":
            return jstr("t%d" % rng.randrange(5))
        if ch == "4.16":
            return jstr(rng.choice(texts))
        return sc.num(rng.choice([0, 1, 2]))
    for _ in range(n):
        k = rng.randrange(2, 5)
        conns = ["c%d" % i for i in range(k)]
        order = conns[:]
        rng.shuffle(order)
        ops = ["N:p", "S:p:c0:ok"]
        for c in order:
            ops += ["N:" + c, "V:%s:c0:ok" % c]
        alive = set(conns)
        nxt = k
        for _ in range(rng.randrange(4, 14)):
            r = rng.random()
            live = sorted(alive)
            if r < 0.3 and live:
                ops.append("P:%s:%s:-:%d" % (rng.choice(live), rng.choice(chars), rng.randrange(2)))
            elif r < 0.55:
                ch = rng.choice(chars)
                ops.append("L:%s:%s" % (ch, val_for(ch)))
            elif r < 0.8 and live:
                ch = rng.choice(chars)
                ops.append("P:%s:%s:%s:-" % (rng.choice(live), ch, val_for(ch)))
            elif r < 0.9 and len(live) > 1:
                c = rng.choice(live)
                ops.append("K:" + c)
                alive.discard(c)
            else:
                c = "c%d" % nxt
                nxt += 1
                ops += ["N:" + c, "V:%s:c0:ok" % c]
                alive.add(c)
            if rng.random() < 0.4:
                ops.append("W")
                ops += ["E:" + c for c in sorted(alive)]
        ops.append("W")
        ops += ["E:" + c for c in sorted(alive)]
        mk(cases, "events", ops)
    for i in range(6 if tier == "quick" else 60):
        # a value already at its bound, then writes beyond the bound (clamped to the same value): no event is due
        hi = rng.random() < 0.5
        at, beyond = (38, [50, 100, 38.5]) if hi else (10, [5, 0, 9.5])
        ops = ["N:p", "S:p:c0:ok", "N:c0", "V:c0:c0:ok", "N:c1", "V:c1:c0:ok", "P:c0:3.12:-:1", "P:c1:3.12:-:1",
               "L:3.12:%s" % sc.num(at), "W", "E:c0", "E:c1"]
        for b in beyond:
            if rng.random() < 0.5:
                ops += ["L:3.12:%s" % sc.num(b)]
            else:
                ops += ["P:c1:3.12:%s:-" % sc.num(b)]
            ops += ["W", "E:c0", "E:c1"]
        mk(cases, "atbound", ops)
    # somebody else's "ev": false (with or without a subscription of its own) does not end anybody's subscription
    for third in (False, True):
        for pre in ([], ["P:c1:2.9:-:1"]):
            ops = ["N:p", "S:p:c0:ok", "N:c0", "V:c0:c0:ok", "N:c1", "V:c1:c0:ok", "N:c2", "V:c2:c0:ok", "P:c0:2.9:-:1"] + pre + ["P:c1:2.9:-:0",
                   ("P:c2:2.9:true:-" if third else "L:2.9:true"), "W", "E:c0", "E:c1", "E:c2", "P:c1:3.12:-:0", "L:3.12:%s" % sc.num(25), "W", "E:c0", "E:c1"]
            mk(cases, "unsub-by-other", ops)
    # two controllers write the same new value to 40 characteristics at the same time, 150 (thorough: 600) rounds; a third one is
    # subscribed: one change, one event
    for i in range(1 if tier == "quick" else 3):
        mk(cases, "same-write-from-two", ["N:p", "S:p:c0:ok", "N:c0", "V:c0:c0:ok", "N:c1", "V:c1:c0:ok", "N:c2", "V:c2:c0:ok", "DUPW:c0:c1:c2:%d" % (150 if tier == "quick" else 600)],
           opts="nacc=40")
        cases[-1]["noretry"] = True
    # "ev": false as the first thing a connection says about events; later it subscribes
    ops = ["N:p", "S:p:c0:ok", "N:c0", "V:c0:c0:ok", "N:c1", "V:c1:c0:ok", "P:c0:2.9:-:0", "P:c1:2.9:-:1", "L:2.9:true", "W", "E:c0", "E:c1",
           "P:c0:2.9:-:1", "L:2.9:false", "W", "E:c0", "E:c1"]
    mk(cases, "unsub-first", ops)
    # the application takes a written value back from inside its remote-update callback (two changes: both are notified)
    for i in range(2 if tier == "quick" else 10):
        ops = ["N:p", "S:p:c0:ok", "N:c0", "V:c0:c0:ok", "N:c1", "V:c1:c0:ok", "P:c0:2.9:-:1", "P:c1:2.9:-:1", "TB:2.9",
               "P:c0:2.9:true:-", "W", "E:c0", "E:c1", "G:c1:2.9", "P:c1:2.9:true:-", "W", "E:c0", "E:c1", "P:c0:2.9:false:-", "W", "E:c0", "E:c1"]
        mk(cases, "take-back", ops)
    # the application changes a value thousands of times while the subscriber keeps sending requests (an event may be due at
    # any moment of the server's request handling)
    for i in range(2 if tier == "quick" else 10):
        mk(cases, "storm", ["N:p", "S:p:c0:ok", "N:c0", "V:c0:c0:ok", "P:c0:4.14:-:1", "STORM:c0:%d" % (2500 if tier == "quick" else 8000)])
        cases[-1]["noretry"] = True
    # the application changes a value several times, coming back to a value it had before, while a subscriber's request is being
    # handled (its notifications wait for the response): every change is notified, equal ones too
    for ch, vals in (("2.9", ["true", "false", "true"]), ("2.9", ["true", "false", "true", "false"]), ("3.12", [sc.num(30), sc.num(21.5), sc.num(30)]),
                     ("4.14", [sc.num(5), sc.num(6), sc.num(5), sc.num(6), sc.num(5)])):
        ops = ["N:p", "S:p:c0:ok", "N:c0", "V:c0:c0:ok", "N:c1", "V:c1:c0:ok", "P:c0:%s:-:1" % ch, "P:c1:%s:-:1" % ch,
               "LSPLIT:c0:%s:%s" % (ch, "/".join(vals)), "W", "E:c0", "E:c1", "L:%s:%s" % (ch, vals[1]), "W", "E:c0", "E:c1"]
        mk(cases, "changes-during-request", ops)
    # directed: texts that look like parts of the HTTP / EVENT framing, as values of an observable string
    for t in texts[1:6]:
        ops = ["N:p", "S:p:c0:ok", "N:c0", "V:c0:c0:ok", "N:c1", "V:c1:c0:ok", "P:c0:4.16:-:1", "P:c1:4.16:-:1",
               "P:c0:4.16:%s:-" % jstr(t), "W", "E:c0", "E:c1", "L:4.16:%s" % jstr(t + "!"), "W", "E:c0", "E:c1", "G:c1:4.16", "P:c1:2.9:true:-", "G:c1:2.9"]
        mk(cases, "texts", ops)
    for i in range(4 if tier == "quick" else 40):
        # the application has a read callback on an observable characteristic that lags behind what is written (hardware
        # follows asynchronously): writes and local sets are still notified once, to the subscribed others, with the value
        # written (no read of the characteristic happens while the callback is installed)
        ch, lag, vals = rng.choice([("2.9", "false", ["true"]), ("3.12", sc.num(12), [sc.num(20.5), sc.num(30)]), ("4.14", sc.num(7), [sc.num(9), sc.num(4000000000)])])
        ops = ["N:p", "S:p:c0:ok", "N:c0", "V:c0:c0:ok", "N:c1", "V:c1:c0:ok", "N:c2", "V:c2:c0:ok", "P:c0:%s:-:1" % ch, "P:c1:%s:-:1" % ch,
               "GCB:%s:%s" % (ch, lag)]
        for v in vals:
            ops += [rng.choice(["P:c0:%s:%s:-" % (ch, v), "L:%s:%s" % (ch, v)]), "W", "E:c0", "E:c1", "E:c2"]
        ops += ["GCB:%s:-" % ch, "G:c2:%s" % ch]
        mk(cases, "lagging-getter", ops)
    return cases


def oracle_c10(c, obs):
    if obs.startswith("harness-panic") or obs.startswith("setup-error") or obs.startswith("DRIVER") or obs == "NO-OUTPUT":
        return "harness failure: " + obs[:100]
    rows = sc.rows_for(c["line"])
    cur = {k: sc.canon_model_val(v["value"]) for k, v in rows.items()}
    subs, pending, alive = {}, {}, set()
    takeback = set()
    pairs, ok = pair_tokens(c["line"], obs)
    ops = [o for o in c["line"].split(" ")[1:] if not (o.startswith("tbl=") or o.startswith("nacc=") or o.startswith("pin=") or o.startswith("fsz="))]
    it = iter(pairs)

    def change(cid, vt, origin):
        want = ("s:" + vt.split("~")[1]) if vt.startswith("J") else ("num:%r" % float(vt.split("@")[0]) if "@" in vt else sc.canon_val(vt))
        if want.startswith("num:"):
            # the library clamps to the declared bounds before it compares with the stored value
            x = float(want[4:])
            for b, f in (("min", max), ("max", min)):
                bt = rows[cid][b]
                if bt != "-":
                    bv = float(sc.canon_model_val(bt)[4:])
                    x = f(x, bv)
            want = "num:%r" % x
        if cur.get(cid) == want:
            return
        cur[cid] = want
        for k in alive:
            if k != origin and cid in subs.get(k, set()):
                pending.setdefault(k, []).append("%s=%s" % (cid, want))

    for op in ops:
        p = op.split(":")
        tok = None
        if p[0] in EMITS:
            _, tok = next(it)
        if p[0] == "DUPW":
            if not tok.startswith("DUPW=ok"):
                return "two controllers wrote the same new value at the same time: the subscriber's events per round are not one per changed characteristic (%s)" % tok[5:]
            continue
        if p[0] == "STORM":
            if tok != "STORM=ok":
                return "the application changed a value thousands of times while the subscriber kept sending requests: " + tok[6:].replace("-", " ")
            continue
        if p[0] == "V" and p[3] == "ok":
            alive.add(p[1])
            subs[p[1]] = set()
        elif p[0] == "K":
            alive.discard(p[1])
            subs.pop(p[1], None)
            pending.pop(p[1], None)
        elif p[0] == "L":
            change(p[1], ":".join(p[2:]), None)
        elif p[0] == "LSPLIT":
            if tok != "LSPLIT=204":
                return "a subscription request whose body arrived after the application changed the value was answered " + tok
            for vt in ":".join(p[3:]).split("/"):
                change(p[2], vt, None)
            if "e" in rows[p[2]]["perms"]:
                subs.setdefault(p[1], set()).add(p[2])
        elif p[0] == "TB":
            takeback.add(p[1])
        elif p[0] == "P":
            cid, ev, val = p[2], p[-1], ":".join(p[3:-1])
            if val != "-":
                change(cid, val, p[1])
                if cid in takeback and val == "true":
                    change(cid, "false", None)       # the application's callback takes it back: a second change, by the application
            if ev != "-" and "e" in rows[cid]["perms"]:
                if ev == "1":
                    subs.setdefault(p[1], set()).add(cid)
                else:
                    subs.setdefault(p[1], set()).discard(cid)
        elif p[0] == "E":
            want = sorted(pending.pop(p[1], []))
            got = sorted(x for x in sc._canon_entries(tok[2:].replace(";", ","), sc.canon_val).split(",") if x) if tok != "E=" else []
            if got != want:
                return "connection %s received events %s; exactly %s are due (one per change, subscribed others only)" % (p[1], got, want)
    return None


# ------------------------------------------------------------------ C13
MALFORMED_TLV = ["", "06", "0601", "060103ff", "05ff0102", "00" * 1, "ff" * 7, "0601010501", "06010305" + "ff" + "00" * 20, "0601050510" + "00" * 3]
MALFORMED_JSON = [b"", b"{", b"[[[[[[[[", b'{"characteristics":', b'{"characteristics":[{"aid":"x","iid":2}]}', b'{"characteristics":[{"aid":1,"iid":2,"value":1e400}]}',
                  b'{"characteristics":{"aid":1}}', b"\xff\xfe\x00", b'{"characteristics":[' + b"[" * 12000 + b"]" * 12000 + b"]}", b"nul", b'{"characteristics":[{"aid":-1,"iid":2}]}']


def gen_c13(rng, tier):
    cases = []
    n = 30 if tier == "quick" else 500
    for i in range(n):
        ops = ["N:h", "S:h:c0:ok"]
        x = "x"
        ops.append("N:x")
        state = rng.choice(["fresh", "after-start", "after-m3", "after-vstart", "verified", "after-setup"])
        if state == "after-setup":
            ops.append("S:x:e0:ok")       # a complete, correct pair-setup on this very connection
        elif state == "after-start":
            ops.append("S:x:e1:start")
        elif state == "after-m3":
            ops += ["S:x:e1:start", "S:x:e1:m3"]
        elif state == "after-vstart":
            ops.append("V:x:c0:startonly")
        elif state == "verified":
            ops.append("V:x:c0:ok")
        for _ in range(rng.randrange(1, 6)):
            r = rng.random()
            if r < 0.3:
                ops.append("B:x:%s:%s" % (rng.choice(["ps", "pv", "pairings"]), rng.choice(MALFORMED_TLV) or "06"))
            elif r < 0.5:
                ops.append("B:x:chars:%s" % rng.choice(MALFORMED_JSON).hex() or "7b")
            elif r < 0.65:
                ops.append("S:x:e1:%s" % rng.choice(["m5short", "m5empty", "m5flip", "m5inner", "m5zerokey", "badstep", "badmethod", "garbage", "m5first", "a0", "aempty"]))
            elif r < 0.8:
                ops.append("V:x:c0:%s" % rng.choice(["short0", "short7", "short15", "short16", "flip", "zerokey", "inner-garbage", "inner-trailing", "keylen0", "keylen33", "finishfirst", "garbage", "unknown",
                                                      "startzerokeep", "startlow1", "startlow2", "startlow3", "startlow4", "startlow5", "startlow6"]))
            elif r < 0.82 and state == "verified":
                # an "ev" member that is not a boolean, on observable and non-observable characteristics
                ops.append("P:x:%s:-:%s" % (rng.choice(["2.9", "4.13", "3.12", "4.14"]), rng.choice(["st", "s1", "n1", "n0"])))
            elif r < 0.86 and state == "verified":
                # a pairing whose long-term public key has the wrong length, then somebody tries to verify with it
                ops += ["R:x:odd:%s" % rng.choice(["addshortkey", "addlongkey"]), "N:q", "V:q:odd:%s" % rng.choice(["ok", "badsig"]), "K:q"]
            elif r < 0.9 and state == "verified":
                ops.append("P:x:%s:%s:-" % (rng.choice(["2.9", "4.13", "3.12", "3.10"]), rng.choice(["OBJ", "ARR", "null", sc.num(1e300), "true", jstr("NaN")])))
            else:
                ops.append("X:x:%s:%s" % rng.choice(XEPS))
        # afterwards: the same connection after at most one rejected start, and a new connection
        if state != "verified":
            ops += ["S:x:n1:ok", "S:x:n1:ok", "ST"]
            ops += ["V:x:c0:ok", "V:x:c0:ok", "G:x:2.9"]
        # ... and the accessory still serves the whole protocol (attribute database, writes) to a new controller
        ops += ["N:y", "S:y:n2:ok", "N:z", "V:z:n2:ok", "G:z:2.9", "A:z", "P:z:2.9:true:-", "ST"]
        if state == "verified":
            ops += ["A:x", "P:x:2.9:false:-"]
        mk(cases, "robust", ops, {"state": state})
    # directed: on a verified connection, id lists that are not lists of <aid>.<iid>, ids of accessories that do not exist, write
    # entries without ids / null entries: every request is answered and the connection keeps working
    ops = ["N:h", "S:h:c0:ok", "N:x", "V:x:c0:ok", "G:x:1", "G:x:1.2.3", "G:x:", "G:x:1.9,", "G:x:,", "G:x:x.y", "G:x:42.9", "G:x:1.9,42.9", "G:x:2.9,0.0",
           "P:x:42.9:true:-", "P:x:0.9:true:1", "PM:x:0.9~-~1+42.9~true~-+2.9~-~1", "G:x:2.9",
           "N:y", "S:y:n2:ok", "N:z", "V:z:n2:ok", "G:z:2.9", "A:z", "P:z:2.9:true:-", "ST", "A:x", "P:x:2.9:false:-"]
    mk(cases, "robust", ops, {"state": "verified"})
    # directed: steps and methods no handler has a name for, on both pairing endpoints (the accessory must answer and stay up)
    ops = ["N:h", "S:h:c0:ok", "N:x", "S:x:e1:badstep", "S:x:e1:badmethod", "B:x:ps:060107", "B:x:ps:0601ff", "B:x:pv:060105", "B:x:pv:060109", "B:x:pv:0601ff",
           "B:x:pairings:060109", "S:x:n1:ok", "S:x:n1:ok", "ST", "V:x:c0:ok", "V:x:c0:ok", "G:x:2.9",
           "N:y", "S:y:n2:ok", "N:z", "V:z:n2:ok", "G:z:2.9", "A:z", "P:z:2.9:true:-", "ST"]
    mk(cases, "robust", ops, {"state": "fresh"})
    # directed: pair-verify starts whose public key is a point of small order; pair-setup exchanges abandoned half way
    # (connection closed after M2 / after M4) must not keep anybody else from pairing
    ops = ["N:h", "S:h:c0:ok", "N:x"] + ["V:x:c0:%s" % v for v in ["startzerokeep", "startlow1", "startlow2", "startlow3", "startlow4", "startlow5", "startlow6"]]
    ops += ["S:x:n1:ok", "S:x:n1:ok", "ST", "V:x:c0:ok", "V:x:c0:ok", "G:x:2.9", "N:y", "S:y:n2:ok", "N:z", "V:z:n2:ok", "G:z:2.9", "A:z", "P:z:2.9:true:-", "ST"]
    mk(cases, "robust", ops, {"state": "fresh"})
    for pre in (["S:x:e1:start"], ["S:x:e1:start", "S:x:e1:m3"], ["S:x:e1:start", "S:x:e1:m3wrong"]):
        ops = ["N:h", "S:h:c0:ok", "N:x"] + pre + ["K:x", "N:y", "S:y:n2:ok", "N:z", "V:z:n2:ok", "G:z:2.9", "A:z", "P:z:2.9:true:-", "ST"]
        mk(cases, "robust", ops, {"state": "abandoned"})
    # directed: a pairing whose long-term public key has the wrong length (added by an admin), then somebody verifies under it;
    # a key exchange of pair-setup that delivers such a key
    for k in ["addshortkey", "addlongkey"]:
        for vv in ["ok", "badsig"]:
            ops = ["N:h", "S:h:c0:ok", "N:x", "V:x:c0:ok", "R:x:odd:%s" % k, "N:q", "V:q:odd:%s" % vv, "K:q",
                   "N:y", "S:y:n2:ok", "N:z", "V:z:n2:ok", "G:z:2.9", "A:z", "P:z:2.9:true:-", "ST", "A:x", "P:x:2.9:false:-"]
            mk(cases, "robust", ops, {"state": "verified"})
    # directed: a request whose header arrives in two segments, cut 1 .. 4 bytes before its end, then a request with a longer
    # body on the same connection: both are answered, and the connection still pairs
    for k in (1, 2, 3, 4):
        ops = ["N:h", "S:h:c0:ok", "N:x", "HSPLIT:x:%d" % k, "S:x:n1:ok", "S:x:n1:ok", "ST", "V:x:c0:ok", "V:x:c0:ok", "G:x:2.9",
               "N:y", "S:y:n2:ok", "N:z", "V:z:n2:ok", "G:z:2.9", "A:z", "P:z:2.9:true:-", "ST"]
        mk(cases, "robust", ops, {"state": "fresh"})
    # directed: peers that never pair keep connections busy while others connect and disconnect in a loop (the accessory's table
    # of connections is used by all of them at once); afterwards the accessory serves
    mk(cases, "robust", ["N:h", "S:h:c0:ok", "CHURN:%d" % (1500 if tier == "quick" else 6000), "N:y", "S:y:n2:ok", "N:z", "V:z:n2:ok", "G:z:2.9", "A:z", "P:z:2.9:true:-", "ST"], {"state": "abandoned"})
    cases[-1]["noretry"] = True
    # directed: a peer resets its connection while its request is being handled and connects again from the same port; its next
    # (correct) request must be answered
    mk(cases, "robust", ["N:h", "S:h:c0:ok", "RSC:%d" % (4 if tier == "quick" else 20), "N:y", "S:y:n2:ok", "N:z", "V:z:n2:ok", "G:z:2.9", "A:z", "P:z:2.9:true:-", "ST"], {"state": "abandoned"})
    # directed: the first request of a verified connection that mentions events ends a subscription it never made
    for cid in ["2.9", "3.12", "4.13"]:
        ops = ["N:h", "S:h:c0:ok", "N:x", "V:x:c0:ok", "P:x:%s:-:0" % cid, "G:x:2.9", "PM:x:%s~-~0+2.9~-~0" % cid, "P:x:2.9:-:1", "P:x:2.9:-:0",
               "N:y", "S:y:n2:ok", "N:z", "V:z:n2:ok", "G:z:2.9", "A:z", "P:z:2.9:true:-", "ST", "A:x", "P:x:2.9:false:-"]
        mk(cases, "robust", ops, {"state": "verified"})
    # directed: type errors inside an otherwise well-formed write of a verified controller must not wedge anything
    for cid in ["2.9", "3.12", "4.14", "4.13"]:
        for ev in ["st", "s1", "n1", "n0"]:
            ops = ["N:h", "S:h:c0:ok", "N:x", "V:x:c0:ok", "P:x:%s:-:%s" % (cid, ev), "G:x:2.9",
                   "N:y", "S:y:n2:ok", "N:z", "V:z:n2:ok", "G:z:2.9", "A:z", "P:z:2.9:true:-", "ST", "A:x", "P:x:2.9:false:-"]
            mk(cases, "robust", ops, {"state": "verified"})
    return cases


def oracle_c13(c, obs):
    if obs.startswith("harness-panic") or obs.startswith("setup-error") or obs.startswith("DRIVER") or obs == "NO-OUTPUT":
        return "harness failure / accessory unable to serve: " + obs[:100]
    pairs, ok = pair_tokens(c["line"], obs)
    if not ok:
        return "missing observations (driver stopped)"
    secured = set()
    for op, tok in pairs:
        p = op.split(":")
        if p[0] == "V" and p[3] == "ok" and "err" not in tok and tok.startswith("V=st2/st4"):
            secured.add(p[1])
        if p[0] in ("B", "S", "V", "P", "R") and p[1] in ("x", "q"):
            body = tok.split("=", 1)[1].split("[")[0]
            if "closed" in body.split("/"):
                # plaintext sent by the adversary op X on an encrypted connection legitimately ends the connection
                return "request %s was answered by dropping the connection (handler panic?) instead of an error response: %s" % (op[:60], tok[:60])
    for op, tok in pairs:
        if op.startswith("HSPLIT:") and tok != "HSPLIT=answered":
            return "a request whose header arrived in two segments (or the request behind it) was not answered: " + tok
        if op.startswith("RSC:") and not (tok.startswith("RSC=ok") or tok == "RSC=unsupported"):
            return "a peer that reset its connection while its request was handled and connected again from the same port got no answer to a correct pair-setup start (%s)" % tok
    last = dict((o, t) for o, t in pairs)
    if last.get("S:y:n2:ok", "") != "S=st2/st4/st6[M2okM6ok]" or not last.get("V:z:n2:ok", "").startswith("V=st2/st4[") or not last.get("G:z:2.9", "").startswith("G=200"):
        return "after the malformed input a correct handshake on a new connection no longer succeeds: %s %s %s" % (last.get("S:y:n2:ok"), last.get("V:z:n2:ok"), last.get("G:z:2.9", "")[:40])
    if not last.get("A:z", "").startswith("A=200") or not last.get("P:z:2.9:true:-", "").startswith("P=204"):
        return "after the malformed input the accessory no longer serves the attribute database / a write to a new, verified controller: %s %s" % (last.get("A:z", "")[:30], last.get("P:z:2.9:true:-", "")[:30])
    if c["meta"]["state"] == "verified" and "A:x" in last:
        xdead0 = any(t.endswith("closed") or t.endswith("noconn") for o, t in pairs if o.split(":")[1:2] == ["x"] and o.split(":")[0] in ("X",))
        if not xdead0 and not (last["A:x"].startswith("A=200") and last.get("P:x:2.9:false:-", "").startswith("P=204")):
            return "after the malformed input the verified connection is no longer served: %s %s" % (last["A:x"][:30], last.get("P:x:2.9:false:-", "")[:30])
    if c["meta"]["state"] not in ("verified", "abandoned"):
        # plaintext X ops can have closed x only if x was verified; otherwise the same connection must recover
        xdead = any(t.endswith("closed") or t.endswith("noconn") for o, t in pairs if o.split(":")[1:2] == ["x"])
        tries = [t for o, t in pairs if o == "S:x:n1:ok"]
        if not xdead and "S=st2/st4/st6[M2okM6ok]" not in tries:
            return "after at most one rejected start the same connection still cannot pair: %s" % tries
        vt = [t for o, t in pairs if o == "V:x:c0:ok"]
        if not xdead and not any(t.startswith("V=st2/st4[") for t in vt):
            return "after at most one rejected start the same connection still cannot pair-verify: %s" % vt
    return None
