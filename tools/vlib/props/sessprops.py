"""The server's session table (hap/context.go, hap/connection.go) against Model/Sessions.v: histories of accepts, verifications,
protected requests and closes over connections whose addresses overlap in every way two live connections' addresses can."""
from .. import core


def gen(rng, tier):
    cases = []
    n = 150 if tier == "quick" else 4000
    for i in range(n):
        locs, rems = ["La", "Lb"], ["Ra.1", "Ra.2", "Rb.1"]
        if i % 4 == 3:
            # addresses as long as IPv6 link-local ones with a zone: remote addresses that differ only in their last characters
            locs = ["[fe80--1c3a-9bff-fe12-3456%eth0].51826", "[fe80--1c3a-9bff-fe12-3456%wlan0].51826"]
            rems = ["[fe80--1c3a-9bff-fe65-4321%eth0].49152", "[fe80--1c3a-9bff-fe65-43ff%eth0].50000", "[fe80--1c3a-9bff-fe65-4321%eth0].49153"]
        live, replaced, ops = {}, set(), []
        nxt = 1
        for _ in range(rng.randrange(3, 14)):
            r = rng.random()
            usable = [c for c in live if c not in replaced]
            if r < 0.3 or not live:
                free = [(l, m) for l in locs for m in rems if (l, m) not in live.values()]
                if live and (rng.random() < 0.25 or not free):
                    # the peer reset a connection and connects again from the same port to the same address: the old one is
                    # closed by the server later
                    old = rng.choice(sorted(live))
                    addr = live[old]
                    replaced.update(c for c in live if live[c] == addr)
                elif free:
                    addr = rng.choice(free)
                else:
                    continue
                c = nxt
                nxt += 1
                # an older connection with these addresses stays in the books until its Close
                live[c] = addr
                ops.append("C:%d:%s:%s" % (c, addr[0], addr[1]))
            elif r < 0.5 and usable:
                ops.append("V:%d" % rng.choice(usable))
            elif r < 0.85 and usable:
                ops.append("R:%d" % rng.choice(usable))
            elif live:
                c = rng.choice(sorted(live))
                ops.append("X:%d" % c)
                del live[c]
                replaced.discard(c)
        for c in sorted(live):
            if c not in replaced:
                ops.append("R:%d" % c)
        cases.append({"id": "ss%d" % i, "kind": "sessions", "line": "ss " + " ".join(ops)})
    # directed: same remote address, two local addresses; the late close
    cases.append({"id": "ssd0", "kind": "sessions", "line": "ss C:1:La:Ra.1 C:2:Lb:Ra.1 V:2 R:1 R:2 X:2 R:1 V:1 R:1"})
    cases.append({"id": "ssd1", "kind": "sessions", "line": "ss C:1:La:Ra.1 C:2:La:Ra.1 X:1 R:2 V:2 R:2 X:2"})
    cases.append({"id": "ssd2", "kind": "sessions", "line": "ss C:1:La:Ra.1 V:1 C:2:La:Ra.1 R:2 X:1 R:2 V:2 R:2"})
    return cases


def nontrivial(c):
    return " V:" in c["line"]


def outcome_class(c, obs):
    return "sessions/" + ("served" if "served" in obs else "none-served")


def oracle(c, obs):
    """what C01 says, connection by connection: a request is served iff ITS connection verified since it was accepted"""
    if obs.startswith("panic") or obs in ("NO-OUTPUT", "badop", "setup-error") or obs.startswith("DRIVER"):
        return "harness failure: " + obs[:80]
    ops = c["line"].split(" ")[1:]
    outs = obs.split(" ")
    if len(outs) != len(ops):
        return "missing observations"
    state = {}
    for op, o in zip(ops, outs):
        p = op.split(":")
        k = p[1]
        if p[0] == "C":
            state[k] = False
        elif p[0] == "V":
            if o == "nosession":
                return "connection %s was accepted and not closed, but the pair-verify handler found no session for it" % k
            state[k] = True
        elif p[0] == "R":
            want = "served" if state.get(k) else "refused"
            if o != want:
                return "a protected request of connection %s was %s; the connection %s pair-verified since it was accepted" % (k, o, "has" if state.get(k) else "has NOT")
        elif p[0] == "X":
            state.pop(k, None)
    return None


def classify(c, obs, why):
    return None
