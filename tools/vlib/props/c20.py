"""C20 — identity, configuration number and discoverability persist correctly; setup codes and setup URI."""
import json, os, re
from .. import core

ID = "C20"
FAMILY = "config"
RULE = ("restart histories on ONE storage directory through hc.NewIPTransport / Start / Stop: sequences of starts with the same "
        "or a structurally different accessory set (5 accessory kinds x 8 structure changes, 1-4 accessories) and changed "
        "characteristic values, offline pairing / unpairing through db.Database, live pair-setup / add / remove pairing by the "
        "reference controller, deletion or truncation of the version / configHash files; observed: TXT records (id, c#, sf, ci), "
        "the accessory's key pair in the entity file, uuid / version files, XHMURI(). Setup codes: all trivial codes, random "
        "8-digit codes, lengths 0-12, non-digits, unicode digits, signs, spaces. Setup payloads: util.XHMURI over random and "
        "boundary codes (0, 99999999), all 256 categories, all 16 flag sets, several setup ids. Content hash: pairs of accessory "
        "sets whose JSON trees (member order and number literals preserved) are given to the model's strip / equality and compared "
        "with the equality of the real ContentHash(). non-trivial = a history with at least one restart after a change "
        "(structure, values or pairings), an accepted-format code, or a pair of different databases")
EXTRA_FILES = ("Proofs/ConfigProofs.v",)
ASSUMPTIONS = [
    "the structure hash is an opaque byte string in the history model; that equal hashes mean equal stripped JSON is MD5 collision resistance (outside the model)",
    "histories do not delete the uuid file or the accessory's own entity file ('the same storage')",
    "controllers' pairing identifiers differ from the accessory's device id (premise of C20_identity_stable; its failure is the recorded finding C20:controller-named-as-accessory)",
    "a second pair-setup while already paired is accepted by hc (observed, modelled as an added pairing); HAP would answer Unavailable — outside this property's statement",
]
TRUSTED = ["reference controller of the stack harness for the live pairing operations",
           "Python decoder of the X-HM payload and Python re-implementation of 'remove every value member' as implementation-side oracles"]
RETRY = 2

KINDS = {"b": 2, "l": 5, "s": 8, "t": 9, "o": 7}
TRIVIAL = ["%d" % d * 8 for d in range(10)] + ["12345678", "87654321"]
B36 = "0123456789ABCDEFGHIJKLMNOPQRSTUVWXYZ"


def gen_struct(rng, maxacc=4):
    n = rng.choice([1, 1, 2, 2, 3, maxacc])
    accs = []
    for i in range(n):
        k = "b" if (i == 0 and n > 1 and rng.random() < 0.5) else rng.choice("lsto")
        mods = "".join(sorted(set(rng.choice("1234567899") for _ in range(rng.choice([0, 0, 1, 2])))))
        if k == "b":
            mods = mods.replace("2", "").replace("3", "").replace("4", "").replace("7", "").replace("8", "").replace("6", "").replace("9", "")
        accs.append(k + mods)
    return ",".join(accs)


def gen_vals(rng, struct):
    n = len(struct.split(","))
    if rng.random() < 0.3:
        return "-"
    vs = ["%d.%d.%d" % (rng.randrange(n), rng.randrange(12), rng.randrange(100)) for _ in range(rng.randrange(1, 4))]
    for i, a in enumerate(struct.split(",")):
        if "9" in a[1:] and rng.random() < 0.6:
            vs.append("%d.z.%d" % (i, rng.randrange(100)))     # the value-less characteristic gets a value: not a change of structure
    return ",".join(vs)


def cat_of(struct):
    accs = struct.split(",")
    return 2 if len(accs) > 1 else KINDS[accs[0][0]]


def mutate_struct(rng, struct):
    accs = struct.split(",")
    r = rng.random()
    if r < 0.3 and len(accs) < 5:
        accs.append(rng.choice("lsto"))
    elif r < 0.45 and len(accs) > 1:
        accs.pop()
    elif r < 0.55 and len(accs) > 1:
        accs = accs[1:] + accs[:1]
    else:
        i = rng.randrange(len(accs))
        k, mods = accs[i][0], set(accs[i][1:])
        allowed = "15" if k == "b" else "123456789"
        m = rng.choice(allowed)
        mods ^= {m}
        accs[i] = k + "".join(sorted(mods))
    s = ",".join(accs)
    return s if s != struct else struct + ",l"


def gen_history(rng, live):
    ops = []
    struct = gen_struct(rng)
    running = False
    nlive = 0
    ctrls = ["c1", "c2", "c3"]
    paired = set()
    for step in range(rng.randrange(3, 9)):
        r = rng.random()
        if not running:
            if r < 0.55 or step == 0:
                if step > 0 and rng.random() < 0.45:
                    struct = mutate_struct(rng, struct)
                ops.append("S:%s:%s:%d" % (struct, gen_vals(rng, struct), cat_of(struct)))
                running = True
            elif r < 0.75:
                c = rng.choice(ctrls)
                ops.append("P:" + c)
                paired.add(c)
            elif r < 0.9:
                c = rng.choice(ctrls)
                ops.append("U:" + c)
                paired.discard(c)
            else:
                ops.append(rng.choice(["D:version", "D:configHash", "Z:configHash", "Z:version"]))
                ops.append("E")
        else:
            if r < 0.3:
                ops.append("X")
                running = False
            elif r < 0.45:
                # restart without an explicit stop
                if rng.random() < 0.5:
                    struct = mutate_struct(rng, struct)
                ops.append("S:%s:%s:%d" % (struct, gen_vals(rng, struct), cat_of(struct)))
            elif r < 0.75 and live and nlive < 3:
                nlive += 1
                k = rng.random()
                admin = rng.choice(sorted(paired)) if paired and rng.random() < 0.85 else rng.choice(ctrls)
                if k < 0.3 or not paired:
                    c = rng.choice(ctrls)
                    ops.append("PS:" + c)
                    paired.add(c)
                elif k < 0.55:
                    c = rng.choice(ctrls)
                    ops.append("AD:%s:%s" % (admin, c))
                    if admin in paired:
                        paired.add(c)
                else:
                    c = rng.choice(sorted(paired)) if rng.random() < 0.8 else rng.choice(ctrls)
                    ops.append("RM:%s:%s" % (admin, c))
                    if admin in paired:
                        paired.discard(c)
                ops.append("T")
            else:
                ops.append(rng.choice(["T", "E"]))
    if not running:
        ops.append("S:%s:%s:%d" % (struct, gen_vals(rng, struct), cat_of(struct)))
    ops += ["T", "E"]
    return ops


def gen(rng, tier):
    cases = []

    def add(kind, line):
        cases.append({"id": "%s%d" % (kind[:2], len(cases)), "line": line, "kind": kind})

    # --- setup codes ---
    pins = list(TRIVIAL) + ["00102003", "03145154", "99999998", "00000001", "12345679", "", "1", "1234567", "123456789", "031-45-154",
                            "1234567a", "a2345678", "１２３４５６７８", "+1234567", " 1234567", "1234567 ", "12345678\n", "0x123456", "-1234567",
                            "12 45678", "٠١٢٣٤٥٦٧", "0000000", "000000000", "1e345678"]
    # non-ASCII decimal digits whose UTF-8 encoding makes the string exactly eight bytes long
    uni2 = ["\u0660", "\u0667", "\u06f3", "\u07c1"]            # 2-byte digits
    uni3 = ["\uff13", "\u0967", "\u0e53", "\u1049"]            # 3-byte digits
    pins += ["123456" + uni2[1], "00102" + uni3[0], "".join(uni2), uni3[0] + uni3[1] + uni2[0], "12" + uni3[2] + uni3[3], "1234" + uni2[0] + uni2[2],
             uni2[3] + "123456", "\u00b2\u00b3\u00b9\u00bc", "1234567\x00", "\x001234567", "1234567\x7f", "1234567/", "1234567:"]
    for _ in range(10 if tier == "quick" else 300):
        parts, n = [], 0
        while n < 8:
            ch = rng.choice(uni2 + uni3 + list("0123456789") * 2)
            if n + len(ch.encode()) <= 8:
                parts.append(ch)
                n += len(ch.encode())
        pins.append("".join(parts))
    for _ in range(60 if tier == "quick" else 4000):
        pins.append("%08d" % rng.randrange(10 ** 8))
    for _ in range(30 if tier == "quick" else 1000):
        n = rng.choice([0, 1, 7, 8, 8, 8, 9, 12])
        pins.append("".join(rng.choice("0123456789" * 6 + "aZ-+ .") for _ in range(n)))
    for p in pins:
        add("pin", "pin %s" % (p.encode().hex() or "-"))
    # --- setup payloads ---
    combos = []
    for cat in (range(256) if tier != "quick" else [0, 1, 2, 5, 9, 17, 127, 128, 255]):
        combos.append((rng.choice(["00000000", "99999999", "%08d" % rng.randrange(10 ** 8)]), "HOME", cat, [rng.randrange(16)]))
    for fl in range(16):
        combos.append(("%08d" % rng.randrange(10 ** 8), rng.choice(["HOME", "ABCD", "", "X1Z9"]), rng.randrange(256), [fl]))
    for _ in range(40 if tier == "quick" else 3000):
        code = rng.choice(["%08d" % rng.randrange(10 ** 8), "031-45-154", "%d" % rng.randrange(10 ** 8), "00000000", "99999999", "134217727", "134217728"])
        combos.append((code, rng.choice(["HOME", "ABCD", "ZZZZ", "A"]), rng.randrange(256), [rng.choice([0, 1, 2, 4, 8, 3, 15]) for _ in range(rng.randrange(0, 4))]))
    combos += [("", "HOME", 1, [2]), ("12a", "HOME", 1, [2]), ("---", "HOME", 1, [2])]
    for code, sid, cat, flags in combos:
        add("xhm", "xhm %s %s %d %s" % (code.encode().hex() or "-", sid.encode().hex() or "-", cat, ",".join(map(str, flags)) or "-"))
    # --- restart histories ---
    nh = 48 if tier == "quick" else 1200
    for i in range(nh):
        live = i % 3 == 0
        opts = []
        if rng.random() < 0.3:
            opts.append("pin=%08d" % rng.choice([3145154, 102003, 99999998, 46637726]))
        if rng.random() < 0.3:
            opts.append("sid=" + rng.choice(["ABCD", "X1Z9"]).encode().hex())
        add("hist/live" if live else "hist", "hist " + " ".join(opts + gen_history(rng, live)))
    # many different structures restarted unchanged (a hash-dependent spurious change would show)
    for i in range(40 if tier == "quick" else 600):
        st = gen_struct(rng)
        add("hist/twice", "hist S:%s:-:%d X S:%s:%s:%d S:%s:%s:%d T" % (st, cat_of(st), st, gen_vals(rng, st), cat_of(st), st, gen_vals(rng, st), cat_of(st)))
    # two controllers paired, one removed: still paired (sf = 0), also after a restart; removing a name that is not stored
    add("hist/live", "hist S:l:-:5 PS:c1 AD:c1:c2 T E RM:c1:c2 T E X S:l:-:5 T RM:c1:c3 T RM:c1:c1 T E X S:l:-:5 T")
    add("hist/live", "hist S:l,s:-:2 PS:c1 AD:c1:c2 AD:c1:c3 T RM:c2:c1 T E RM:c2:c9 T RM:c3:c2 T RM:c3:c3 T E")
    # a start with a changed structure that is killed at EVERY crash point of its file writes, then started again:
    # the configuration number must have increased (and must then stay)
    for g in range(0, 30 if tier == "quick" else 40):
        a, b = rng.choice([("l", "l1"), ("l,s", "l,s,o"), ("t", "t3"), ("s2", "s")])
        add("hist/crash", "hist S:%s:-:%d X C:%d:%s S:%s:-:%d X S:%s:-:%d T E" % (a, cat_of(a), g, b, b, cat_of(b), b, cat_of(b)))
    # the very FIRST start on a storage is killed at every crash point of its file writes (the accessory's entity, the id, the
    # version, the hash), then started again: one identity, discoverable, and a controller can pair
    for g in range(0, 26 if tier == "quick" else 34):
        st = rng.choice(["l", "l,s", "t", "s2"])
        add("hist/crash-first", "hist C:%d:%s S:%s:-:%d T E PS:c1 T E X S:%s:-:%d T E" % (g, st, st, cat_of(st), st, cat_of(st)))
    # a controller pairing under the accessory's own device id (recorded finding)
    add("hist/self", "hist S:l:-:5 E PSELF T E X S:l:-:5 T E")
    add("hist/self", "hist S:l,s:-:2 PS:c1 T PSELF T E S:l,s:-:2 T E")
    add("hist/novalue", "hist S:l9:-:5 T X S:l9:0.z.4:5 T X S:l9:-:5 T E S:l9,s9:1.z.2:2 T X S:l9,s9:0.z.1:2 T E")
    for nm in ["Lamp [Kitchen]", "Lamp [1", "a*b?c", "back\\slash", "sp ace", "ü😀", "{x}", "]["]:
        add("hist/dirname", "hist dirname=%s S:l:-:5 PS:c1 T E X S:l:-:5 T E RM:c1:c1 T E X S:l:-:5 T E" % nm.encode().hex())
    add("hist/remove-then-add", "hist S:l:-:5 PS:c1 T RA:c1:c2 T E X S:l:-:5 T E")
    add("hist/remove-then-add", "hist S:b,s:-:2 PS:c1 AD:c1:c2 T RA:c1:c3 T RM:c2:c2 T RA:c3:c1 T E X S:b,s:-:2 T E")
    add("hist/bigid", "hist S:sx,l:-:2 T X S:sy,l:-:2 T X S:sy,l:-:2 T X S:sx,l:-:2 T E")
    add("hist/lowercase-id", "hist S:l:-:5 PS:c1 T E X LC S:l:-:5 T E RM:c1:c1 T X S:l:-:5 T E")
    add("hist/lowercase-id", "hist S:b,s:-:2 X LC S:b,s:-:2 PS:c1 T X S:b,s1:-:2 T E")
    add("hist/badpin", "hist S:l:-:5 X pin=11111111 S:l:-:5 T pin=00102003 S:l1:-:5 T E")
    cases += pin_changed(rng, tier)
    # what the mDNS responder holds follows the pairings: a pairing stored / removed right after a start (the responder is still
    # probing for its names: the recorded finding) and after the probe (control)
    cases.append({"id": "adv0", "kind": "hist/advertised-early", "line": "hist S:l:-:5 PS:c1 WT:2600 TA E"})
    cases.append({"id": "adv1", "kind": "hist/advertised-early", "line": "hist S:l:-:5 PS:c1 X S:l:-:5 RM:c1:c1 WT:2600 TA E"})
    cases.append({"id": "adv2", "kind": "hist/advertised-late", "line": "hist S:l:-:5 WT:2600 PS:c1 WT:400 TA E RM:c1:c1 WT:400 TA E"})
    return cases


def pin_changed(rng, tier):
    """the setup code is changed between two runs on the same storage (same process, same device id): only the code of the
    run at hand pairs; also used by the C02 and C04 checks"""
    cases = []
    for i in range(3 if tier == "quick" else 12):
        p1, p2 = ["%08d" % rng.choice([3145154, 102003, 99999998, 46637726, 20250101, 55512345][j::2]) for j in (0, 1)]
        first = rng.choice(["PSW:c0:%s" % p1, "PSW:c9:%s" % p2, "PSW:c0:%s E RM:c0:c0" % p1])
        cases.append({"id": "pinch%d" % i, "kind": "hist/pin-changed", "fam": "hist",
                      "line": "hist pin=%s S:l:-:5 %s E X pin=%s S:l:-:5 T PSW:c1:%s E PSW:c2:%s T E X pin=%s S:l:-:5 PSW:c3:%s PSW:c4:%s E" % (p1, first, p2, p1, p2, p1, p2, p1)})
    return cases


def gen_json(rng, tier):
    pairs = []
    for i in range(60 if tier == "quick" else 1500):
        a = gen_struct(rng)
        r = rng.random()
        if r < 0.45:
            b = a
        else:
            b = mutate_struct(rng, a)
        pairs.append({"id": "j%d" % i, "line": "json %s:%s %s:%s" % (a, gen_vals(rng, a), b, gen_vals(rng, b)), "kind": "json/" + ("same" if a == b else "diff"), "same": a == b})
    # accessory ids beyond 2^53 that differ by one: different structures (ids are 64-bit integers, not floats)
    for i, (a, b) in enumerate([("sx", "sy"), ("lx,s", "ly,s"), ("l,sx", "l,sy"), ("b,lx,sy", "b,ly,sy"), ("b,lx", "b,lx")]):
        pairs.append({"id": "jb%d" % i, "line": "json %s:- %s:-" % (a, b), "kind": "json/" + ("same" if a == b else "diff"), "same": a == b})
    # a characteristic that has no value in one tree and a value in the other (same structure)
    for i, (a, va, vb) in enumerate([("l9", "-", "0.z.4"), ("l9", "0.z.4", "-"), ("b,t9,s9", "1.z.1", "2.z.2"), ("s89", "-", "0.z.7")]):
        pairs.append({"id": "jn%d" % i, "line": "json %s:%s %s:%s" % (a, va, a, vb), "kind": "json/same", "same": True})
    return pairs


# ---------------------------------------------------------------- oracles (implementation side)
def decode_xhm(uri):
    if not uri.startswith("X-HM://") or len(uri) < 16:
        return None
    body = uri[7:16]
    p = 0
    for ch in body:
        if ch not in B36:
            return None
        p = p * 36 + B36.index(ch)
    return {"code": p & 0x7ffffff, "flags": (p >> 27) & 0xf, "cat": (p >> 31) & 0xff, "rest": p >> 39, "sid": uri[16:]}


def oracle_pin(c, obs):
    s = bytes.fromhex(c["line"].split(" ")[1].replace("-", ""))
    good = len(s) == 8 and all(48 <= b <= 57 for b in s) and s.decode() not in TRIVIAL
    if good:
        want = "ok:" + (s[:3] + b"-" + s[3:5] + b"-" + s[5:]).hex()
        if obs != want:
            return "an eight-digit non-trivial setup code must be accepted and formatted XXX-XX-XXX; got %s" % obs[:60]
    elif obs != "err":
        return "a setup code that is not eight digits or is a trivial code must be rejected; got %s" % obs[:60]
    return None


def oracle_xhm(c, obs):
    t = c["line"].split(" ")
    code = bytes.fromhex(t[1] if t[1] != "-" else "").decode().replace("-", "")
    sid = bytes.fromhex(t[2] if t[2] != "-" else "").decode()
    cat = int(t[3])
    flags = 0
    for f in (t[4].split(",") if t[4] != "-" else []):
        flags |= int(f)
    if not code.isdigit() or not code.isascii():
        return None if obs == "err" else "a non-numeric code must be refused"
    if int(code) >= 10 ** 8:
        return None       # not a setup code; the payload has only 27 bits
    if not obs.startswith("ok:"):
        return "no setup URI for a numeric code"
    d = decode_xhm(bytes.fromhex(obs[3:]).decode("latin-1"))
    if d is None:
        return "the setup URI is not X-HM:// followed by nine base-36 digits"
    if (d["code"], d["cat"], d["flags"], d["sid"], d["rest"]) != (int(code), cat, flags & 0xf, sid, 0):
        return "the setup URI decodes to code=%d category=%d flags=%d id=%r, expected %d %d %d %r" % (d["code"], d["cat"], d["flags"], d["sid"], int(code), cat, flags & 0xf, sid)
    return None


def oracle_hist(c, obs):
    if obs.startswith("panic") or obs.startswith("DRIVER-DIED") or obs == "NO-OUTPUT":
        return "harness failure: " + obs[:120]
    ops = c["line"].split(" ")[1:]
    outs = obs.split(" ")
    pin, sid = "00102003", "HOME"
    ver, h = None, None          # files "version", "configHash" (None = absent / empty)
    ctrls = set()
    running = False
    ident = None
    cur_ver = None
    oi = 0

    def nxt(prefix):
        nonlocal oi
        if oi >= len(outs) or not outs[oi].startswith(prefix + "="):
            return None
        oi += 1
        return outs[oi - 1][len(prefix) + 1:]

    for op in ops:
        p = op.split(":")
        if op.startswith("pin="):
            pin = op[4:]
        elif op.startswith("sid="):
            sid = bytes.fromhex(op[4:]).decode()
        elif op.startswith("dirname="):
            continue
        elif p[0] == "LC":
            if ident is not None and not running:
                ident = ("renamed", ident[1])
        elif p[0] == "S":
            o = nxt("S")
            if o is None:
                return "missing observation for " + op
            running = False
            if pin in TRIVIAL:
                if o != "err":
                    return "a transport was created with the trivial setup code " + pin
                continue
            m = re.match(r"id(\d+),key(\d+),c(-?\d+),sf(\d),ci(\d+),disk(\d),x([0-9a-f]*)$", o)
            if not m:
                return "start failed: " + o[:80]
            running = True
            if ident is None:
                ident = (m.group(1), m.group(2))
            elif ident[0] == "renamed":
                # the stored identity was renamed while stopped: the name is the new one, the key pair is the stored one
                if m.group(2) != ident[1]:
                    return "the stored identity was given another name (uuid file and own entity, key pair kept) but the accessory came up with another key pair (first seen at start %s, now %s)" % (ident[1], m.group(2))
                ident = (m.group(1), m.group(2))
            elif ident != (m.group(1), m.group(2)):
                return "the device id / key pair changed across a restart on the same storage (first seen at start %s/%s, now %s/%s)" % (ident + (m.group(1), m.group(2)))
            if isinstance(ver, tuple):
                # first start after an interrupted one: old < c# <= old + 2 when the structure differs from the one before the crash
                oldv, oldh = ver[1], h[1]
                got = int(m.group(3))
                if oldh is not None and oldh != p[1] and not (oldv < got <= oldv + 2):
                    return "after a start with a changed structure was killed and repeated, the configuration number is %d (was %d before the change): it must have increased" % (got, oldv)
                if (oldh is None or oldh == p[1]) and not (oldv <= got <= oldv + 2):
                    return "configuration number %d after an interrupted start, was %d" % (got, oldv)
                ver, h, cur_ver = got, p[1], got
                v = got
            else:
                v = ver if ver is not None else 1
                if h is not None and h != p[1]:
                    v += 1
            if int(m.group(3)) != v:
                why = "the structure changed" if (h is not None and h != p[1]) else "the structure did not change"
                return "configuration number %s after restart, expected %d (%s since the previous run: %s -> %s)" % (m.group(3), v, why, h, p[1])
            ver, h, cur_ver = v, p[1], v
            if m.group(4) != ("0" if ctrls else "1"):
                return "sf=%s at start with stored controller pairings %s" % (m.group(4), sorted(ctrls))
            if int(m.group(5)) != cat_of(p[1]):
                return None if False else "category %s advertised, expected %d" % (m.group(5), cat_of(p[1]))
            if m.group(6) != "1":
                return "the uuid / version files differ from what is advertised"
            d = decode_xhm(bytes.fromhex(m.group(7)).decode("latin-1"))
            if d is None or (d["code"], d["cat"], d["flags"], d["sid"], d["rest"]) != (int(pin), cat_of(p[1]), 2, sid, 0):
                return "XHMURI() decodes to %s, expected code %d category %d flags 2 id %s" % (d, int(pin), cat_of(p[1]), sid)
        elif p[0] == "C":
            o = nxt("C")
            if o != "done":
                return "harness: the crashing child did not run: %s" % o
            running = False
            crashed = (ver if ver is not None else 1, p[2])
            # what the interrupted start left behind is one of the states in between; the next S decides
            ver, h = ("any", crashed[0]), ("any", h, p[2])
        elif p[0] == "X":
            running = False
        elif p[0] == "T":
            o = nxt("T")
            if o is None:
                return "missing observation for T"
            if running:
                if o != "sf%d,c%d" % (0 if ctrls else 1, cur_ver):
                    return "TXT records sf/c# are %s with stored controller pairings %s and configuration number %s" % (o, sorted(ctrls), cur_ver)
        elif p[0] in ("P", "U"):
            if running:
                nxt(p[0])
            elif p[0] == "P":
                ctrls.add(p[1])
            else:
                ctrls.discard(p[1])
        elif p[0] == "PS":
            o = nxt("PS")
            if running and o and o.startswith("st2/st4/st6"):
                ctrls.add(p[1])
        elif p[0] == "WT":
            continue
        elif p[0] == "TA":
            o = nxt("TA")
            if running and o:
                want = "sf%d" % (0 if ctrls else 1)
                if o != "%s/%s" % (want, want):
                    return "the mDNS responder holds %s for the service, the transport computed %s, stored controller pairings are %s" % (o.split("/")[0], o.split("/")[-1], sorted(ctrls))
        elif p[0] == "PSW":
            o = nxt("PSW")
            if running and o:
                if p[2] == pin:
                    if not o.startswith("st2/st4/st6"):
                        return "a controller that entered the accessory's setup code %s could not pair: %s" % (pin, o[:60])
                    ctrls.add(p[1])
                elif o.startswith("st2/st4/st6") or "st6" in o:
                    return "a controller that entered %s was paired although the accessory's setup code is %s: %s" % (p[2], pin, o[:60])
        elif p[0] == "PSELF":
            o = nxt("PSELF")
            if running and o and o.startswith("st2/st4/st6"):
                ctrls.add("SELF")
        elif p[0] in ("AD", "RM"):
            o = nxt(p[0])
            if running and o == "st2":
                if p[1] not in ctrls:
                    return "a controller without a stored pairing changed the pairings"
                (ctrls.add if p[0] == "AD" else ctrls.discard)(p[2])
        elif p[0] == "RA":
            o = nxt("RA")
            if running and o is not None:
                if p[1] not in ctrls and o.startswith("st2"):
                    return "a controller without a stored pairing changed the pairings"
                parts = o.split("/")
                if parts[0] == "st2":
                    ctrls.discard(p[1])
                if len(parts) > 1 and parts[1] == "st2":
                    ctrls.add(p[2])
        elif p[0] in ("D", "Z"):
            if running:
                nxt(p[0])
            elif p[1] == "version":
                ver = None
            else:
                h = None
        elif p[0] == "E":
            o = nxt("E")
            if o is None:
                return "missing observation for E"
            if ident is not None and o != "1:" + "+".join(sorted(ctrls)):
                return "stored entities are %s, expected the accessory's own and the controllers %s" % (o, sorted(ctrls))
    return None


def oracle(c, obs):
    k = c["kind"].split("/")[0]
    if k == "pin":
        return oracle_pin(c, obs)
    if k == "xhm":
        return oracle_xhm(c, obs)
    return oracle_hist(c, obs)


def same(c, g, m):
    # histories with an interrupted start have no model line (the crash point is a run-time notion): the oracle decides,
    # the save order they depend on is covered by C20_interrupted_start_still_increases
    return g == m or c["kind"] in ("hist/crash", "hist/crash-first", "hist/pin-changed", "hist/advertised-early", "hist/advertised-late")


def nontrivial(c):
    k = c["kind"].split("/")[0]
    if k == "pin":
        s = bytes.fromhex(c["line"].split(" ")[1].replace("-", ""))
        return len(s) == 8 and s.isdigit()
    if k == "xhm":
        return True
    return c["line"].count(" S:") >= 2


def outcome_class(c, obs):
    k = c["kind"]
    if k in ("pin", "xhm"):
        return k + "/" + obs[:2]
    return k


def classify(c, obs, why):
    # identified by the input: a history in which a controller pairs under the accessory's own device id
    if c["kind"].startswith("hist") and " PSELF" in c["line"]:
        return "C20:controller-named-as-accessory"
    if c["kind"] == "hist/advertised-early" and why and why.startswith("the mDNS responder holds"):
        return "C20:pairing-change-while-mdns-probing"
    return None


# ---- second pass: content hash vs the model's strip ----
def parse_tree(s):
    pos = 0

    def semi():
        nonlocal pos
        j = s.index(";", pos)
        r = s[pos:j]
        pos = j + 1
        return r

    def value():
        nonlocal pos
        ch = s[pos]
        pos += 1
        if ch == "n":
            return None
        if ch in "tf":
            return ch == "t"
        if ch == "#":
            return ("num", semi())
        if ch == "s":
            return ("str", semi())
        if ch == "a":
            return [value() for _ in range(int(semi()))]
        if ch == "o":
            out = []
            for _ in range(int(semi())):
                k = semi()
                out.append((k, value()))
            return ("obj", out)
        raise ValueError(ch)
    return value()


def py_strip(t):
    if isinstance(t, list):
        return [py_strip(x) for x in t]
    if isinstance(t, tuple) and t[0] == "obj":
        return ("obj", [(k, py_strip(v)) for k, v in t[1] if k != b"value".hex()])
    return t


def run_json(res, rng, tier, replay=None):
    cases = [replay] if replay else gen_json(rng, tier)
    lines = ["%s %s" % (c["id"], c["line"]) for c in cases]
    go = core.shard_run(os.path.join(core.BUILD, "hcdrv"), "config", lines)
    mlines, parsed = [], {}
    for c in cases:
        g = go.get(c["id"], "NO-OUTPUT")
        m = re.match(r"eq=([01]) (\S+) (\S+)$", g)
        if m:
            parsed[c["id"]] = m
            mlines.append("%s strip %s %s" % (c["id"], m.group(2), m.group(3)))
    mo = core.shard_run(os.path.join(core.BUILD, "modelrun"), "config", mlines)
    dis, first = 0, None
    for c in cases:
        res.cases += 1
        hsh = core.sha(c["line"])
        res.distinct.add(hsh)
        if not c.get("same", False):
            res.nontrivial.add(hsh)
        res.count("kind:" + c["kind"])
        g = go.get(c["id"], "NO-OUTPUT")
        m = parsed.get(c["id"])
        why = None
        if not m:
            why = "harness failure: " + g[:120]
            model = "-"
        else:
            model = mo.get(c["id"], "NO-OUTPUT")
            res.count("outcome:json/eq" + m.group(1))
            if model != "eq=" + m.group(1):
                dis += 1
                first = first or {"case": c["line"], "impl": g[:400], "model": model}
            same_py = py_strip(parse_tree(m.group(2))) == py_strip(parse_tree(m.group(3)))
            if "same" in c and c["same"] and m.group(1) != "1":
                why = "the content hash differs between two databases that differ only in characteristic values (the configuration number would increase)"
            elif "same" in c and not c["same"] and m.group(1) != "0":
                why = "the content hash is equal for two structurally different databases (the configuration number would not increase)"
            elif same_py != (m.group(1) == "1"):
                why = "the content hashes are %s although the databases with every value member removed are %s" % (
                    "equal" if m.group(1) == "1" else "different", "equal" if same_py else "different")
        if why:
            res.violations.append(("hash", {"property": ID, "family": "config-json", "seed": res.seed, "case": c["line"],
                                            "implementation_observed": g[:2000], "model_predicted": model, "required": why,
                                            "failing_input_found": True,
                                            "replay": "python3 tools/check.py C20 --replay <this file>"}))
    res.extra["disagreements"] = res.extra.get("disagreements", 0) + dis
    name = "correspondence model<->code: Config.same_hash_input on the JSON trees vs equality of ContentHash()"
    res.obligations.append((name, dis == 0, "%d pairs, %d disagreements" % (len(cases), dis)))
    if dis:
        res.broken.append("%s: %d disagreements, first: %s" % (name, dis, json.dumps(first)[:1200]))


def run(res, a):
    import sys
    res.rule = RULE
    res.assumptions = ASSUMPTIONS
    core.build_everything(res, ID, extra_files=EXTRA_FILES)
    res.trusted += TRUSTED
    rng = core.rng_for(ID, res.seed)
    mod = sys.modules[__name__]
    if a.replay:
        rep = json.load(open(a.replay))
        if rep.get("family") == "config-json":
            run_json(res, rng, a.tier, {"id": "replay", "line": rep["case"], "kind": "json/replay"})
        else:
            k = rep["case"].split(" ")[0]
            if k == "sweep":
                lo, hi = rep["case"].split(" ")[1:3]
                go = core.shard_run(os.path.join(core.BUILD, "hcdrv"), "config", ["w sweep %s %s" % (lo, hi)], timeout=5400)
                res.cases += 1
                if not go.get("w", "").startswith("ok"):
                    res.violations.append(("sweep", dict(rep, implementation_observed=go.get("w", ""))))
                return
            core.run_correspondence(res, FAMILY, [{"id": "replay", "line": rep["case"], "kind": k}], mod)
        return
    core.run_correspondence(res, FAMILY, core.load_corpus(FAMILY) + gen(rng, a.tier), mod)
    run_json(res, rng, a.tier)
    run_sweep(res, a.tier)


def run_sweep(res, tier):
    """implementation side only: every eight-digit code (thorough: all 10^8; quick: two million around the boundaries)"""
    if tier == "thorough":
        step = 10 ** 8 // 64
        ranges = [(i * step, (i + 1) * step) for i in range(64)]
    else:
        ranges = [(0, 250000), (11000000, 11250000), (12300000, 12400000), (87600000, 87700000), (99750000, 100000000)] + \
                 [(d * 11111111 - 50000, min(10 ** 8, d * 11111111 + 50000)) for d in range(1, 10)]
    lines = ["w%d sweep %d %d" % (i, lo, hi) for i, (lo, hi) in enumerate(ranges)]
    go = core.shard_run(os.path.join(core.BUILD, "hcdrv"), "config", lines, timeout=5400)
    n = acc = 0
    bad = None
    for i, (lo, hi) in enumerate(ranges):
        o = go.get("w%d" % i, "NO-OUTPUT")
        m = re.match(r"ok n=(\d+) acc=(\d+)$", o)
        if m:
            n += int(m.group(1))
            acc += int(m.group(2))
        elif bad is None:
            bad = (lo, hi, o)
    res.cases += n
    res.count("kind:sweep-codes", n)
    res.count("outcome:sweep/accepted", acc)
    res.extra["codes_swept"] = n
    if tier == "thorough" and bad is None and acc != 10 ** 8 - 12:
        bad = (0, 10 ** 8, "accepted %d codes, expected 10^8 - 12" % acc)
    if bad:
        res.violations.append(("sweep", {"property": ID, "family": "config", "seed": res.seed, "case": "sweep %d %d" % bad[:2],
                                         "implementation_observed": bad[2], "required": "every eight-digit code is accepted iff it is not trivial, is formatted XXX-XX-XXX, and its setup URI decodes to code, category and flags",
                                         "failing_input_found": True, "replay": "python3 tools/check.py C20 --replay <this file>"}))
