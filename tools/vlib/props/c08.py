"""C08 — concurrent writers never corrupt the encrypted stream."""
import itertools, json, re
from .. import core

ID = "C08"
FAMILY = "connw"
RULE = ("N = 2..4 goroutines call Connection.Write concurrently on one encrypted connection over a scripted net.Conn that "
        "holds every socket write until the runner releases it; EVERY release-order preference (all index sequences of "
        "length N over the pending set) for N <= 3, sampled for N = 4; payloads of 1..3 frames. The captured stream is "
        "decrypted by the x/crypto reference framer. A keep-alive writer (hap.KeepAlive, 1 ms period) runs alongside 1..2 writers "
        "in further cases (its messages may stand between payloads, never inside one). non-trivial = at least two writers")
EXTRA_FILES = ("Proofs/ConnWriteProofs.v",)
ASSUMPTIONS = ["sync.Mutex provides mutual exclusion and happens-before (Go memory model); the model's micro-steps are seal-one-chunk / send-all under the lock",
               "the order in which goroutines acquire the mutex is nondeterministic: observations are compared modulo the order of the payloads",
               "a writer that has not reached the socket within the grace period (30 ms, doubled on retry) is blocked on the mutex"]
TRUSTED = ["gated scripted net.Conn and reference framer in the Go harness"]


def rb(rng, n):
    return bytes(rng.getrandbits(8) for _ in range(n)).hex()


def gen(rng, tier):
    cases = []
    shared = rb(rng, 32)
    sizes = [[5, 7], [1000, 1030], [2048, 3], [1, 1, 1], [1500, 10, 1024], [3000, 2000]]
    if tier != "quick":
        sizes += [[10, 20, 30, 40], [1025, 1025, 1025], [2500, 2500], [1, 2049, 7, 1024]]
    for sz in sizes:
        n = len(sz)
        prefs = list(itertools.product(range(n), repeat=n)) if n <= 3 else [tuple(rng.randrange(n) for _ in range(n)) for _ in range(30)]
        if tier == "quick" and len(prefs) > 9:
            prefs = rng.sample(prefs, 9)
        for pref in prefs:
            # distinct first bytes so that payloads are distinguishable after decryption
            pls = [("%02x" % (i + 1)) + rb(rng, s - 1) for i, s in enumerate(sz)]
            cases.append({"id": "cw%d" % len(cases), "kind": "N=%d" % n,
                          "line": "cw %s %s %s" % (shared, ",".join(map(str, pref)), " ".join(pls))})
    # a keep-alive writer (hap.KeepAlive with a 1 ms period) alongside 1..2 writers: the release preference also picks
    # among the keep-alive's held socket writes
    for sz in [[5], [1500], [2048, 7], [3000, 1030]]:
        n = len(sz) + 1
        for pref in (list(itertools.product(range(n), repeat=n)) if tier != "quick" else [tuple(rng.randrange(n) for _ in range(n)) for _ in range(4)] + [(1,) * n, (n - 1,) * n]):
            pls = [("%02x" % (i + 1)) + rb(rng, s - 1) for i, s in enumerate(sz)]
            cases.append({"id": "cw%d" % len(cases), "kind": "KA+%d" % len(sz),
                          "line": "cw %s %s %s KA" % (shared, ",".join(map(str, pref)), " ".join(pls))})
    return cases


def nontrivial(c):
    return len(c["line"].split(" ")) >= 5


def outcome_class(c, obs):
    return obs.split(" ")[0]


def oracle(c, obs):
    if obs.startswith("panic") or obs.startswith("DRIVER-DIED") or obs == "NO-OUTPUT" or obs == "stuck":
        return "harness failure / stuck writers: " + obs[:80]
    want = sorted(x for x in c["line"].split(" ")[3:] if x != "KA")
    obs = re.sub(r" ka=\d+$", "", obs)
    if not obs.startswith("ok "):
        return "the peer cannot decrypt the stream in arrival order / a payload is not intact and contiguous: " + obs[:80]
    if sorted(obs[3:].split(",")) != want:
        return "decrypted payloads differ from what was written"
    return None


def classify(c, obs, why):
    return None


def run(res, a):
    import os, re, sys
    res.rule = RULE + ("; additionally (implementation side only): two writers across a session switch (writer A inside its socket write, "
                       "writer B waiting for the lock, then the session is replaced — from no session and from an older session), and a "
                       "stress run of writers against the connection's reader decrypting incoming frames on the same session")
    res.assumptions = ASSUMPTIONS + ["the session-switch and reader-versus-writer runs have no model counterpart (the model has one session and no reader); they are judged by the oracle only"]
    core.build_everything(res, ID, extra_files=EXTRA_FILES)
    res.trusted += TRUSTED
    mod = sys.modules[__name__]
    rng = core.rng_for(ID, res.seed)
    if a.replay:
        rep = json.load(open(a.replay))
        if rep["case"].startswith("sk "):
            stalled(res, a, [rep["case"]])
        elif rep["case"].split(" ")[0] in ("cwsw", "cwrace", "cwdl", "cwclose"):
            extra(res, [{"id": "replay", "line": rep["case"], "kind": rep["case"].split(" ")[0]}])
        else:
            core.run_correspondence(res, FAMILY, [{"id": "replay", "line": rep["case"], "kind": "replay"}], mod)
        return
    core.run_correspondence(res, FAMILY, core.load_corpus(FAMILY) + gen(rng, a.tier), mod)
    cases = []
    for i in range(4 if a.tier == "quick" else 24):
        old = rb(rng, 32) if i % 2 else "-"
        cases.append({"id": "sw%d" % i, "kind": "cwsw", "line": "cwsw %s %s %s %s" % (old, rb(rng, 32), "aa" + rb(rng, rng.choice([4, 1100])), "bb" + rb(rng, rng.choice([9, 2100])))})
    for i in range(4 if a.tier == "quick" else 16):
        cases.append({"id": "race%d" % i, "kind": "cwrace", "line": "cwrace %s 4 %d %d" % (rb(rng, 32), 300 if a.tier == "quick" else 3000, 2000 if a.tier == "quick" else 20000)})
    for i in range(3 if a.tier == "quick" else 12):
        cases.append({"id": "dl%d" % i, "kind": "cwdl", "line": "cwdl %s %s %s" % (rb(rng, 32), "aa" + rb(rng, rng.choice([4, 1100])), "bb" + rb(rng, rng.choice([9, 2100])))})
    # writers and a Close of the connection from another goroutine: the first write is in flight at the socket, the others wait
    for i in range(4 if a.tier == "quick" else 24):
        cases.append({"id": "cl%d" % i, "kind": "cwclose", "line": "cwclose %s %s" % (rb(rng, 32), " ".join("c%d" % j + rb(rng, rng.choice([5, 40, 1500])) for j in range(rng.randrange(2, 5))))})
    extra(res, cases)
    stalled(res, a)


def stalled(res, a, lines=None):
    """full stack, implementation side: a subscriber that stops reading for six seconds while the application sets far more
    than the socket buffers hold (the accessory's event writes block), then reads on"""
    import os
    from . import stackcommon as sc
    if lines is None:
        lines = ["sk tbl=%s N:p S:p:c0:ok N:c0 V:c0:c0:ok P:c0:4.16:-:1 STALL:c0:6:%d:100000" % (sc.table(), 150)] * (1 if a.tier == "quick" else 2)
    obs = core.shard_run(os.path.join(core.BUILD, "hcdrv"), "stack", ["stall%d %s" % (i, l) for i, l in enumerate(lines)])
    bad = 0
    for i, l in enumerate(lines):
        o = obs.get("stall%d" % i, "NO-OUTPUT")
        res.cases += 1
        res.count("kind:stalled-subscriber")
        if not o.endswith("STALL=ok"):
            bad += 1
            res.violations.append(("stalled", {"property": ID, "family": "stack", "seed": res.seed, "case": l, "implementation_observed": o[-200:],
                                               "required": "a subscriber that did not read for six seconds while events piled up (the accessory's socket writes blocked) cannot decrypt the stream / misses events afterwards: " + o.split(" ")[-1][6:90].replace("-", " "),
                                               "failing_input_found": True, "replay": "python3 tools/check.py C08 --replay <this file>"}))
    res.obligations.append(("implementation-side runs: event writes to a subscriber that stops reading for seconds", bad == 0, "%d runs, %d failing" % (len(lines), bad)))


def extra(res, cases):
    import os, re
    lines = ["%s %s" % (c["id"], c["line"]) for c in cases]
    go = core.shard_run(os.path.join(core.BUILD, "hcdrv"), FAMILY, lines, group=lambda l: l.split(" ")[0])
    bad = 0
    for c in cases:
        o = go.get(c["id"], "NO-OUTPUT")
        res.cases += 1
        h = core.sha(c["line"])
        res.distinct.add(h)
        res.nontrivial.add(h)
        res.count("kind:" + c["kind"])
        res.count("outcome:" + c["kind"] + "/" + o.split(" ")[0][:12])
        why = None
        if c["kind"] == "cwsw":
            m = re.match(r"a=(\S+) b=(\S+)$", o)
            had_old = c["line"].split(" ")[1] != "-"
            if not m:
                why = "harness failure: " + o[:80]
            elif m.group(2) != "new":
                why = "a write that waited for the lock while the session was replaced went out %s: the peer, which decrypts in arrival order under the new keys, cannot decrypt it" % (
                    "in plaintext" if m.group(2) == "plain" else ("under the old session's key and counter" if m.group(2).startswith("old") else "undecryptable"))
            elif not (m.group(1) == ("old@0" if had_old else "plain")):
                why = "the write that was in flight before the switch was sent as %s" % m.group(1)
        elif c["kind"] == "cwclose":
            if not o.startswith("ok "):
                why = ("writers waiting for the connection's write lock while the connection is closed from another goroutine: the peer received bytes that are "
                       "not frames of the session before the stream ended (" + o[:60] + ")")
        elif c["kind"] == "cwdl":
            if o != "ok":
                why = "a write made while the server had a READ deadline in the past on the connection (as it has at the end of every request) did not go out like any other: " + o[:80]
        elif not o.startswith("ok "):
            why = "with the connection's reader decrypting incoming frames while writers write: " + o[:100]
        if why:
            bad += 1
            res.violations.append((c["kind"], {"property": ID, "family": FAMILY, "seed": res.seed, "case": c["line"], "implementation_observed": o[:300],
                                               "required": why, "failing_input_found": True, "replay": "python3 tools/check.py C08 --replay <this file>"}))
    res.obligations.append(("implementation-side runs: writes across a session switch, writers against the reader", bad == 0, "%d runs, %d failing" % (len(cases), bad)))


def same(c, g, m):
    # the number of keep-alive messages that made it into the stream is timing, not behaviour
    return re.sub(r" ka=\d+$", "", g) == m
