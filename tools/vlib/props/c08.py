"""C08 — concurrent writers never corrupt the encrypted stream."""
import itertools, json
from .. import core

ID = "C08"
FAMILY = "connw"
RULE = ("N = 2..4 goroutines call Connection.Write concurrently on one encrypted connection over a scripted net.Conn that "
        "holds every socket write until the runner releases it; EVERY release-order preference (all index sequences of "
        "length N over the pending set) for N <= 3, sampled for N = 4; payloads of 1..3 frames. The captured stream is "
        "decrypted by the x/crypto reference framer. non-trivial = at least two writers")
EXTRA_FILES = ("Proofs/ConnWriteProofs.v",)
ASSUMPTIONS = ["sync.Mutex provides mutual exclusion and happens-before (Go memory model); the model's micro-steps are seal-one-chunk / send-all under the lock",
               "the order in which goroutines acquire the mutex is nondeterministic: observations are compared modulo the order of the payloads",
               "a writer that has not reached the socket within the grace period (30 ms, doubled on retry) is blocked on the mutex"]
TRUSTED = ["gated scripted net.Conn and reference framer in the Go harness"]


def rb(rng, n):
    return bytes(rng.getrandbits(8) for _ in range(n)).hex()


def gen(rng, tier):
    cases = []
    shared = rb(rng, 32)
    sizes = [[5, 7], [1000, 1030], [2048, 3], [1, 1, 1], [1500, 10, 1024], [3000, 2000]]
    if tier != "quick":
        sizes += [[10, 20, 30, 40], [1025, 1025, 1025], [2500, 2500], [1, 2049, 7, 1024]]
    for sz in sizes:
        n = len(sz)
        prefs = list(itertools.product(range(n), repeat=n)) if n <= 3 else [tuple(rng.randrange(n) for _ in range(n)) for _ in range(30)]
        if tier == "quick" and len(prefs) > 9:
            prefs = rng.sample(prefs, 9)
        for pref in prefs:
            # distinct first bytes so that payloads are distinguishable after decryption
            pls = [("%02x" % (i + 1)) + rb(rng, s - 1) for i, s in enumerate(sz)]
            cases.append({"id": "cw%d" % len(cases), "kind": "N=%d" % n,
                          "line": "cw %s %s %s" % (shared, ",".join(map(str, pref)), " ".join(pls))})
    return cases


def nontrivial(c):
    return len(c["line"].split(" ")) >= 5


def outcome_class(c, obs):
    return obs.split(" ")[0]


def oracle(c, obs):
    if obs.startswith("panic") or obs.startswith("DRIVER-DIED") or obs == "NO-OUTPUT" or obs == "stuck":
        return "harness failure / stuck writers: " + obs[:80]
    want = sorted(c["line"].split(" ")[3:])
    if not obs.startswith("ok "):
        return "the peer cannot decrypt the stream in arrival order / a payload is not intact and contiguous: " + obs[:80]
    if sorted(obs[3:].split(",")) != want:
        return "decrypted payloads differ from what was written"
    return None


def classify(c, obs, why):
    return None
