"""C01 — full-stack check (see stackprops.py / stackcommon.py)."""
from . import stackprops as sp, stackcommon as sc

ID = "C01"
FAMILY = "stack"
RETRY = 2
RULE = 'full stack (real ipTransport on loopback + independent reference controller): an honest controller pairs, verifies, subscribes; 1-3 adversary connections issue random plaintext requests to all 7 endpoints, failed / forged pair-setup and pair-verify exchanges (15 + 19 variants), genuine-protocol verify with an unpaired key, probes; plus connection-close / new-connection carry-over cases. non-trivial = at least one adversary request to a protected endpoint'
ASSUMPTIONS = ["symbolic cryptography in the model (forging is impossible by construction of the message alphabet: INT-CTXT of ChaCha20-Poly1305, EUF-CMA of Ed25519, SRP-6a soundness, CDH on Curve25519, HKDF as a random oracle are assumed, not proved); net/http request parsing is modelled as 400-and-close for ciphertext on a plaintext connection; the reference controller's abstract message kinds are realised by concrete builders in harness/cmd/hcdrv/stack.go"]
TRUSTED = ["reference controller harness/cmd/hcdrv/refctl.go (math/big SRP with the RFC 3526 prime re-derived from pi, crypto/ed25519, x/crypto curve25519 / chacha20poly1305 / hkdf)", "scenario translation ocaml/fam_stack.ml and canonicalisation tools/vlib/props/stackcommon.py"]
EXTRA_FILES = ("Proofs/HapProofs.v", "Proofs/CharacProofs.v")
gen = sp.gen_c01
oracle = sp.oracle_c01
same = sc.same


def nontrivial(c):
    return len(c["line"].split(" ")) > 6


def outcome_class(c, obs):
    return c["kind"]


def classify(c, obs, why):
    return None


def run(res, a):
    import json, os, sys
    from .. import core
    res.rule = RULE + ("; additionally (implementation side only): an unverified connection and a verified one that reach the accessory "
                       "under the SAME remote ip:port (one local ip:port, destinations 127.0.0.1 and 127.0.0.2), the unverified one first")
    res.assumptions = ASSUMPTIONS + ["connections are independent objects in the model (no addresses); the shared-address runs are judged by the oracle only"]
    core.build_everything(res, ID, extra_files=EXTRA_FILES)
    res.trusted += TRUSTED
    mod = sys.modules[__name__]
    rng = core.rng_for(ID, res.seed)
    from . import sessprops
    if a.replay:
        rep = json.load(open(a.replay))
        if rep["case"].startswith("ss "):
            core.run_correspondence(res, "sess", [{"id": "replay", "line": rep["case"], "kind": "sessions"}], sessprops,
                                    corr_name="correspondence model<->code, family sess (the session table: Model/Sessions.v against hap.Context / hap.Connection)")
            return
        if " NS:" in rep["case"]:
            cases = [{"id": "replay", "line": rep["case"], "kind": "shared-addr", "meta": {"adv": ["a"]}}]
        else:
            core.run_correspondence(res, FAMILY, [{"id": "replay", "line": rep["case"], "kind": "replay", "meta": rep.get("meta") or {}}], mod)
            return
    else:
        core.run_correspondence(res, FAMILY, core.load_corpus(FAMILY) + gen(rng, a.tier), mod)
        # the session table by itself: accepts, verifications, requests and closes over connections whose addresses overlap in every
        # way two live connections' addresses can (same remote, other local; the same four addresses again after a reset)
        core.run_correspondence(res, "sess", sessprops.gen(core.rng_for(ID + "/sess", res.seed), a.tier), sessprops,
                                corr_name="correspondence model<->code, family sess (the session table: Model/Sessions.v against hap.Context / hap.Connection)")
        cases = sp.gen_c01_shared_addr(rng, a.tier)
    obs = core.shard_run(os.path.join(core.BUILD, "hcdrv"), FAMILY, ["%s %s" % (c["id"], c["line"]) for c in cases])
    bad = unsupported = 0
    for c in cases:
        o = obs.get(c["id"], "NO-OUTPUT")
        res.cases += 1
        res.count("kind:shared-addr")
        if "NS=unsupported" in o:
            unsupported += 1
            continue
        h = core.sha(c["line"])
        res.distinct.add(h)
        res.nontrivial.add(h)
        why = oracle(c, o)
        if why:
            bad += 1
            if bad == 1:
                res.violations.append(("shared-addr", {"property": ID, "family": FAMILY, "seed": res.seed, "case": c["line"], "implementation_observed": o[:400],
                                                       "required": why + " (this connection and a verified one have the same remote ip:port)", "failing_input_found": True,
                                                       "replay": "python3 tools/check.py C01 --replay <this file>"}))
    res.obligations.append(("implementation-side runs: unverified and verified connection under one remote ip:port", bad == 0,
                            "%d runs, %d failing, %d skipped (host cannot bind one local ip:port twice)" % (len(cases), bad, unsupported)))
