"""C06 — secure framing round-trips every payload in the specified wire format."""
import json
from .. import core

ID = "C06"
FAMILY = "frame"
RULE = ("enc cases: random 32-byte shared secrets x payload lengths (quick: 0..1100 step 9 plus 1023..1025, 2047..2049, "
        "3071..3073, 4095..4097; thorough: every length 0..4097) x reader behaviours (bytes.Buffer, iotest.OneByteReader, "
        "HalfReader, DataErrReader, custom piece schedules) x both directions x message sequences of 1-4 (counter "
        "continuity) x start counters 2^32-2 .. 2^32+1, 2^40, 2^63, 2^64-2, 2^64-1 (wrap) x results of Encrypt read at once or only "
        "after all messages were encrypted; observables: wire bytes, reference (x/crypto, specification labels) decryption, hc peer "
        "decryption. non-trivial = a payload >= 1024 bytes, or a non-full reader, or a sequence of >= 2 messages")
EXTRA_FILES = ("Proofs/FramingProofs.v", "Base/ChaChaPolyProofs.v", "Base/CryptoVectors.v")
ASSUMPTIONS = ["golang.org/x/crypto chacha20poly1305 / hkdf and crypto/sha512 compute RFC 8439 / RFC 5869 / FIPS 180-4 (the Gallina instances are checked against RFC vectors in Base/CryptoVectors.v and against x/crypto by the correspondence)",
               "an io.Reader returns each piece non-empty until exhausted (rd_wf); a reader returning (0, nil) forever is outside the model"]
TRUSTED = ["reference framer in harness/cmd/hcdrv/frame.go (x/crypto primitives, constants typed from the HAP specification)"]


def rb(rng, n):
    return bytes(rng.getrandbits(8) for _ in range(n)).hex()


def gen(rng, tier):
    cases = []
    secrets = [rb(rng, 32) for _ in range(3 if tier == "quick" else 12)] + ["00" * 32]
    _rb = rb

    def rb32():
        return rng.choice(secrets)

    def add(kind, line):
        cases.append({"id": "%s%d" % (kind, len(cases)), "line": line, "kind": kind})

    if tier == "quick":
        lens = sorted(set(list(range(0, 1101, 9)) + [1, 2, 1023, 1024, 1025, 2047, 2048, 2049, 3071, 3072, 3073, 4095, 4096, 4097, 65537]))      # 65537: more than 64 full frames in one message
    else:
        lens = list(range(0, 4098)) + [8192, 10000, 65535, 65536, 65537, 100000]
    for L in lens:
        role = rng.choice(["srv", "srv", "cli"])
        add("len", "enc %s %s full %s" % (rb32(), role, rb(rng, L)))
    modes = ["onebyte", "half", "dataerr"]
    rlens = [0, 1, 5, 511, 512, 1023, 1024, 1025, 1536, 2048, 2049, 3000] if tier == "quick" else [0, 1, 2, 5, 100, 511, 512, 513, 1023, 1024, 1025, 1536, 2047, 2048, 2049, 3000, 3072, 4096, 4097]
    for L in rlens:
        for m in modes:
            add("reader", "enc %s srv %s %s" % (rb32(), m, rb(rng, L)))
        for _ in range(2 if tier == "quick" else 6):
            sizes = [rng.choice([1, 2, 3, 100, 500, 1023, 1024, 1025, 2000]) for _ in range(rng.randrange(1, 6))]
            add("reader", "enc %s %s sched:%s %s" % (rb32(), rng.choice(["srv", "cli"]), ",".join(map(str, sizes)), rb(rng, L)))
    for _ in range(60 if tier == "quick" else 1500):
        n = rng.randrange(2, 5)
        msgs = [rb(rng, rng.choice([0, 1, 17, 1000, 1024, 1025, 2048, 2500])) for _ in range(n)]
        mode = rng.choice(["full", "full", "onebyte", "half", "dataerr"])
        add("seq", "enc %s %s %s %s" % (rb32(), rng.choice(["srv", "cli"]), mode, " ".join(msgs)))
    # frame counters far from zero (the nonce is the full 64-bit counter, and it wraps), and results of Encrypt that are
    # read only after later messages were encrypted
    for ctr in [2 ** 32 - 2, 2 ** 32 - 1, 2 ** 32, 2 ** 32 + 1, 2 ** 40 + 7, 2 ** 63, 2 ** 64 - 2, 2 ** 64 - 1, 5]:
        for _ in range(2 if tier == "quick" else 12):
            msgs = [rb(rng, rng.choice([1, 17, 1024, 1025, 2500])) for _ in range(rng.randrange(1, 4))]
            add("counter", "enc %s %s ctr%d+%sfull %s" % (rb32(), rng.choice(["srv", "cli"]), ctr, rng.choice(["", "lazy+"]), " ".join(msgs)))
    for _ in range(12 if tier == "quick" else 200):
        msgs = [rb(rng, rng.choice([0, 1, 17, 1000, 1024, 1025, 2048])) for _ in range(rng.randrange(2, 5))]
        add("lazy", "enc %s %s lazy+%s %s" % (rb32(), rng.choice(["srv", "cli"]), rng.choice(["full", "onebyte", "half"]), " ".join(msgs)))
    return cases


def nontrivial(c):
    t = c["line"].split(" ")
    return len(t) > 5 or t[3] != "full" or any(len(m) >= 2048 for m in t[4:])    # includes every ctr / lazy case


def fields(obs):
    d = {}
    for tok in obs.split(" "):
        if "=" in tok:
            k, v = tok.split("=", 1)
            d[k] = v
    return d


def outcome_class(c, obs):
    if obs.startswith("panic"):
        return "panic"
    return c["kind"] + ("/err" if ("=err" in obs or "=fail" in obs) else "/ok")


def same(c, g, m):
    # "skip": the harness could not place the session at the requested counter (private field names changed)
    return g == m or g == "skip"


def oracle(c, obs):
    if obs.startswith("panic") or obs.startswith("DRIVER-DIED") or obs == "NO-OUTPUT":
        return "no panic; observed " + obs[:80]
    if obs == "skip":
        return None
    t = c["line"].split(" ")
    msgs = t[4:]
    f = fields(obs)
    for i, m in enumerate(msgs):
        w = f.get("w%d" % i)
        if w is None or w == "err":
            return "message %d: Encrypt failed" % i
        wb = bytes.fromhex(w)
        # frame structure: 2-byte LE length, ciphertext, 16-byte tag; <= 1024 plaintext bytes; chunks of the payload
        L = len(m) // 2
        exp = []
        rest = L
        while rest > 0:
            exp.append(min(1024, rest))
            rest -= exp[-1]
        pos = 0
        for n in exp:
            if pos + 2 > len(wb) or (wb[pos] | wb[pos + 1] << 8) != n:
                return "message %d (%d bytes): frame at offset %d does not carry %d plaintext bytes (wire format: frames of at most 1024 bytes covering the payload)" % (i, L, pos, n)
            pos += 2 + n + 16
        if pos != len(wb):
            return "message %d: %d wire bytes, expected %d" % (i, len(wb), pos)
        if f.get("r%d" % i) != m:
            return "message %d: a specification-conformant peer (x/crypto, Control-Salt keys, counter nonce) decrypts %s, sent %s" % (i, f.get("r%d" % i, "?")[:40], m[:40])
        if f.get("d%d" % i) != m:
            return "message %d: hc's peer session decrypts %s, sent %s" % (i, f.get("d%d" % i, "?")[:40], m[:40])
    if "shortreads" in f:
        return "a receiver whose reader delivers less than it is asked for (as sockets and pipes do) does not get the message: " + f["shortreads"].replace("-", " ")
    if "stream" in f:
        return "the messages back to back in ONE reader, decrypted by successive Decrypt calls, do not come out as sent (%s)" % f["stream"]
    return None


def classify(c, obs, why):
    return None


def shard_group(line):
    t = line.split(" ")
    return t[2] if len(t) > 2 else ""


def run(res, a):
    import json, os, sys
    from .. import core
    mod = sys.modules[__name__]
    res.rule = RULE + ("; additionally (implementation side only): the two directions of one session interleaved — Decrypt has read the length "
                       "of an incoming frame, the same session encrypts a message of another length, then the rest of the frame arrives")
    res.assumptions = list(globals().get("ASSUMPTIONS", []))
    core.build_everything(res, ID, extra_files=globals().get("EXTRA_FILES", ()))
    res.trusted += TRUSTED
    rng = core.rng_for(ID, res.seed)
    if a.replay:
        rep = json.load(open(a.replay))
        if rep["case"].startswith("intl "):
            cases = [{"id": "replay", "line": rep["case"], "kind": "both-directions"}]
        else:
            core.run_correspondence(res, FAMILY, [{"id": "replay", "line": rep["case"], "kind": "replay"}], mod)
            return
    else:
        core.run_correspondence(res, FAMILY, core.load_corpus(FAMILY) + gen(rng, a.tier), mod)
        sizes = [(5, 9), (9, 5), (40, 1024), (1024, 3), (1500, 30), (30, 1500), (1, 2)] * (1 if a.tier == "quick" else 8)
        cases = [{"id": "il%d" % i, "line": "intl %s %s %s" % (rb(rng, 32), rb(rng, x), rb(rng, y)), "kind": "both-directions"} for i, (x, y) in enumerate(sizes)]
    obs = core.shard_run(os.path.join(core.BUILD, "hcdrv"), FAMILY, ["%s %s" % (c["id"], c["line"]) for c in cases])
    bad = 0
    for c in cases:
        o = obs.get(c["id"], "NO-OUTPUT")
        t = c["line"].split(" ")
        res.cases += 1
        h = core.sha(c["line"])
        res.distinct.add(h)
        res.nontrivial.add(h)
        res.count("kind:both-directions")
        if o != "d=%s e=%s" % (t[2], t[3]):
            bad += 1
            f = fields(o)
            why = ("the incoming message does not decrypt to what the peer sent" if f.get("d") != t[2] else "the outgoing message is not what a conformant peer decrypts")
            res.violations.append(("both-directions", {"property": ID, "family": FAMILY, "seed": res.seed, "case": c["line"], "implementation_observed": o[:300],
                                                       "required": "one session receiving and sending at the same time (the length of an incoming frame read, then a message of %d bytes encrypted, then the rest of the frame): %s" % (len(t[3]) // 2, why),
                                                       "failing_input_found": True, "replay": "python3 tools/check.py C06 --replay <this file>"}))
    res.obligations.append(("implementation-side runs: both directions of one session interleaved", bad == 0, "%d runs, %d failing" % (len(cases), bad)))
    if not a.replay or " wcopy " in (" " + json.load(open(a.replay))["case"] + " "):
        # byte sequences of any length written into an encrypted connection by the standard library's writers (io.Copy, a 4096-byte
        # bufio.Writer like net/http's, one Write): a conformant peer decrypts exactly the bytes
        ws = ([json.load(open(a.replay))["case"]] if a.replay else
              ["wcopy %s %d" % (rb(rng, 32), n) for n in ([1, 4096, 4097, 9000, 100000] if a.tier == "quick" else [0, 1, 1024, 4095, 4096, 4097, 8192, 9000, 32768, 32769, 100000, 1000000])])
        wobs = core.shard_run(os.path.join(core.BUILD, "hcdrv"), "connw", ["w%d %s" % (i, l) for i, l in enumerate(ws)])
        wbad = 0
        for i, l in enumerate(ws):
            o = wobs.get("w%d" % i, "NO-OUTPUT")
            res.cases += 1
            res.count("kind:standard-writers")
            if o != "copy=ok bufio=ok write=ok":
                wbad += 1
                res.violations.append(("standard-writers", {"property": ID, "family": "connw", "seed": res.seed, "case": l, "implementation_observed": o[:300],
                                                            "required": "%s bytes written into an encrypted connection through io.Copy / bufio.Writer / one Write must come out identical at the peer: %s" % (l.split(" ")[2], o[:120]),
                                                            "failing_input_found": True, "replay": "python3 tools/check.py C06 --replay <this file>"}))
        res.obligations.append(("implementation-side runs: the standard library's writers over an encrypted connection", wbad == 0, "%d runs, %d failing" % (len(ws), wbad)))
