"""C14 — accessory and instance ids are unique, stable and well-formed."""
import re
from .. import core
from . import c15

ID = "C14"
FAMILY = "ids"
RULE = ("random compositions of 1..40 accessories (thorough: up to 60) built with accessory.New plus 0..5 services drawn from "
        "every service constructor of the catalog, with hidden / primary flags, linked services and optional characteristics added to a service after later services were added, explicit ids (including "
        "collisions with automatic ones) or automatic ids; ids read from the Go objects and, independently, from the generic "
        "JSON of the container, whose members are checked for HAP well-formedness; every composition is built twice (ids must "
        "be identical). non-trivial = at least two accessories or a linked / hidden / primary service")
EXTRA_FILES = ("Proofs/IdsProofs.v", "Gen/CatalogGen.v")
ASSUMPTIONS = ["services are added before the accessory is added to the container and each accessory is added once (what 'composition' means); an accessory whose automatic id is already taken by an explicit one is rejected with an error (ids stay unique) — observed, not a violation"]


def gen(rng, tier):
    chars, svcs = c15.names()
    svcs = [s for s in svcs if s != "NewAccessoryInformation"]
    cases = []
    n = 200 if tier == "quick" else 4000
    for i in range(n):
        k = rng.choice([1, 1, 2, 3, 5, 12, 40]) if tier == "quick" else rng.randrange(1, 61)
        accs = []
        for j in range(k):
            r = rng.random()
            eid = 0 if r < 0.6 else rng.choice([1, 2, 3, 7, 50, 1000, 2 ** 40, 2 ** 63, 2 ** 64 - 1, 2 ** 64 - 1])
            ss = []
            for q in range(rng.randrange(0, 6)):
                s = rng.choice(svcs)
                if rng.random() < 0.25:
                    s += "^%d" % rng.randrange(1, 4)
                if rng.random() < 0.2:
                    s += "+h"
                if rng.random() < 0.2:
                    s += "+p"
                if q > 0 and rng.random() < 0.3:
                    s += "~%d" % rng.randrange(q)
                elif rng.random() < 0.08:
                    s += "~!"        # linked to services that are never added to the accessory
                ss.append(s)
            accs.append("%s%d:%s" % ("@" if rng.random() < 0.15 else "", eid, ",".join(ss)))
            if rng.random() < 0.15:
                # RemoveAccessory of an object built earlier: a member, or one that was refused as a duplicate
                accs.append("-%d" % rng.randrange(len(accs)))
        if rng.random() < 0.2:
            # an explicit id used twice (the second is refused), the refused object "removed" as cleanup, the id used again
            e = rng.choice([7, 2, 50])
            accs += ["%d:" % e, "%d:" % e, "-%d" % (len(accs) + 1), "%d:" % e, "0:"]
        line = "ids " + ";".join(accs)
        cases.append({"id": "i%d" % i, "line": line, "kind": "compose"})
        cases.append({"id": "i%dr" % i, "line": line, "kind": "rebuild"})
    return cases


def same(c, g, m):
    # "sig=" (type -> id association) is compared between the two builds of a composition, not with the model
    return " ".join(t for t in g.split(" ") if not t.startswith("sig=")) == m


def nontrivial(c):
    return ";" in c["line"] or "+" in c["line"] or "~" in c["line"] or "^" in c["line"]     # includes removals


def outcome_class(c, obs):
    return c["kind"] + ("/rejected" if "=rej" in obs else "")


def oracle(c, obs):
    if obs.startswith("panic") or obs.startswith("DRIVER-DIED") or obs == "NO-OUTPUT" or obs.startswith("unknown"):
        return "harness / constructor failure: " + obs[:100]
    toks = obs.split(" ")
    specs = c["line"].split(" ", 1)[1].split(";")
    aids = []
    objs = []
    member = {}                      # index of the constructed object -> its "aid:ids" while it is a member
    for t in toks:
        m = re.match(r"a(\d+)=rm$", t)
        if m:
            k = int(specs[int(m.group(1))][1:])
            if k in member:
                aids.remove(int(member[k].split(":")[0]))
                objs.remove(member.pop(k))
            continue
        m = re.match(r"a(\d+)=(\d+):(.*)$", t)
        if m:
            m = re.match(r"a(\d+)=(\d+):(.*)$", t)
            idx = int(m.group(1))
            m = re.match(r"a\d+=(\d+):(.*)$", t)
            member[idx] = "%s:%s" % (m.group(1), m.group(2))
            aids.append(int(m.group(1)))
            ids = [int(x) for x in m.group(2).split(",")]
            objs.append("%s:%s" % (m.group(1), m.group(2)))
            if ids != list(range(1, len(ids) + 1)):
                return "instance ids of accessory %s are not 1..n in construction order (unique, non-zero, order-determined): %s" % (m.group(1), ids[:20])
    if len(set(aids)) != len(aids) or 0 in aids:
        return "accessory ids are not unique and non-zero: %s" % aids
    toks = [t for t in toks if not t.startswith("sig=")]
    js = [t for t in toks if t.startswith("json=")]
    if not js or js[0][5:] != ";".join(objs):
        return "the ids in the served JSON differ from the ids of the objects"
    if toks[-1] != "wf=ok":
        return "the attribute database JSON is not well-formed HAP JSON: " + toks[-1]
    return None


def classify(c, obs, why):
    return None


def run(res, a):
    import json, sys
    res.rule = RULE
    res.assumptions = ASSUMPTIONS
    core.build_everything(res, ID, extra_files=EXTRA_FILES)
    mod = sys.modules[__name__]
    if a.replay:
        rep = json.load(open(a.replay))
        cases = [{"id": "replay", "line": rep["case"], "kind": "replay"}, {"id": "replayr", "line": rep["case"], "kind": "rebuild"}]
    else:
        cases = core.load_corpus(FAMILY) + gen(core.rng_for(ID, res.seed), a.tier)
    go, mo = core.run_correspondence(res, FAMILY, cases, mod)
    # ids depend only on construction order: the same composition built a second time has the same ids
    byline = {}
    for c in cases:
        byline.setdefault(c["line"], []).append(go.get(c["id"], "NO-OUTPUT"))
    for line, obs in byline.items():
        if len(set(obs)) > 1:
            res.violations.append(("unstable", {"property": ID, "family": FAMILY, "seed": res.seed, "case": line,
                                                "implementation_observed": " | ".join(o[:600] for o in obs[:2]),
                                                "required": "two builds of the same composition give different ids (ids must depend on construction order only)",
                                                "failing_input_found": True, "replay": "python3 tools/check.py C14 --replay <this file>"}))
            break
    # the same objects handed to hc.NewIPTransport, directly and after attempts that failed (a refused setup code):
    # the ids the objects end up with are those of a plain container build (what the model computes for the composition)
    import os
    rng = core.rng_for(ID + "/transport", res.seed)
    _, svcs = c15.names()
    svcs = [s for s in svcs if s != "NewAccessoryInformation"]
    tc = []
    if a.replay:
        rep = json.load(open(a.replay))
        if rep["case"].startswith("idst "):
            tc = [rep["case"].split(" ")[1]]
    else:
        for i in range(6 if a.tier == "quick" else 60):
            k = rng.choice([1, 2, 3, 6])
            eids = rng.sample([3, 7, 50, 1000, 12, 99, 2 ** 40, 2 ** 64 - 1], k) if rng.random() < 0.3 else [0] * k
            tc.append(";".join("%d:%s" % (e, ",".join(rng.choice(svcs) + rng.choice(["", "", "+h", "^2"]) for _ in range(rng.randrange(0, 4)))) for e in eids))
    lines, want = [], {}
    for i, spec in enumerate(tc):
        lines.append("tb%d ids %s" % (i, spec))
        for mode in ("fresh", "retry", "retry2"):
            lines.append("t%d%s idst %s %s" % (i, mode, spec, mode))
    if lines:
        obs = core.shard_run(os.path.join(core.BUILD, "hcdrv"), FAMILY, lines)
        bad = 0
        for i, spec in enumerate(tc):
            base = " ".join(t for t in obs.get("tb%d" % i, "NO-OUTPUT").split(" ") if not t.startswith(("sig=", "json", "wf=")) and t[:1] == "a")
            for mode in ("fresh", "retry", "retry2"):
                o = obs.get("t%d%s" % (i, mode), "NO-OUTPUT")
                res.cases += 1
                res.count("kind:transport/" + mode)
                if o != base:
                    bad += 1
                    if bad == 1:
                        res.violations.append(("transport", {"property": ID, "family": FAMILY, "seed": res.seed, "case": "idst %s %s" % (spec, mode),
                                                             "implementation_observed": o[:600], "container_build": base[:600],
                                                             "required": "the accessories handed to NewIPTransport%s end up with other ids than a plain build of the same composition (ids must depend on construction order only)" % (
                                                                 "" if mode == "fresh" else " after %d failed attempt(s) with the same objects" % (1 if mode == "retry" else 2)),
                                                             "failing_input_found": True, "replay": "python3 tools/check.py C14 --replay <this file>"}))
        res.obligations.append(("implementation-side runs: ids of accessories handed to NewIPTransport (fresh, after failed attempts)", bad == 0, "%d runs, %d differing" % (3 * len(tc), bad)))
    # the attribute database as two controllers are served it at the same time (full stack, implementation side only):
    # every /accessories and /characteristics answer must be well-formed JSON and the same as when read alone
    from . import stackcommon as sc
    if not a.replay or json.load(open(a.replay))["case"].startswith("sk "):
        if a.replay:
            rl = [json.load(open(a.replay))["case"]]
        else:
            rl = ["sk tbl=%s nacc=%d N:a S:a:c0:ok V:a:c0:ok N:b V:b:c0:ok RACE:a:b:%d" % (sc.table_for("nacc=%d" % k), k, 40 if a.tier == "quick" else 200)
                  for k in ([24, 40] if a.tier == "quick" else [24, 40, 60, 24, 40, 60])]
        obs = core.shard_run(os.path.join(core.BUILD, "hcdrv"), "stack", ["rc%d %s" % (i, l) for i, l in enumerate(rl)])
        bad = 0
        for i, l in enumerate(rl):
            o = obs.get("rc%d" % i, "NO-OUTPUT")
            res.cases += 1
            res.count("kind:served-concurrently")
            if not o.endswith("RACE=ok"):
                bad += 1
                if bad == 1:
                    res.violations.append(("served", {"property": ID, "family": "stack", "seed": res.seed, "case": l, "implementation_observed": o[-300:],
                                                      "required": "served to two controllers at the same time, an answer is not the well-formed attribute database a controller reading alone gets (%s)" % o.split(" ")[-1][:80],
                                                      "failing_input_found": True, "replay": "python3 tools/check.py C14 --replay <this file>"}))
        res.obligations.append(("implementation-side runs: /accessories and /characteristics served to two controllers at the same time", bad == 0, "%d runs, %d failing" % (len(rl), bad)))
    # ... and with the interleaving forced at a chunk boundary (A's socket write blocks after its first chunk, another
    # JSON answer is encoded and written meanwhile on the same scheduler thread)
    if not a.replay or json.load(open(a.replay))["case"].startswith("served"):
        rng2 = core.rng_for(ID + "/served", res.seed)
        if a.replay:
            sl = [json.load(open(a.replay))["case"]]
        else:
            sl = ["served " + ";".join("0:" + rng2.choice(svcs) for _ in range(k)) for k in ([3, 12, 30] if a.tier == "quick" else [1, 2, 3, 5, 8, 12, 20, 30, 60, 100])]
            # databases whose encoding is an exact multiple of the 2048-byte chunk size (1, 2, many chunks)
            sl += ["servedpad " + ";".join("0:" + rng2.choice(svcs) for _ in range(k)) for k in ([1, 2, 12] if a.tier == "quick" else [1, 1, 2, 3, 5, 12, 30, 60])]
        obs = core.shard_run(os.path.join(core.BUILD, "hcdrv"), FAMILY, ["sv%d %s" % (i, l) for i, l in enumerate(sl)])
        bad = 0
        for i, l in enumerate(sl):
            o = obs.get("sv%d" % i, "NO-OUTPUT")
            res.cases += 1
            res.count("kind:served-interleaved")
            if not o.endswith(" A=own B=own"):
                bad += 1
                if bad == 1:
                    res.violations.append(("served", {"property": ID, "family": FAMILY, "seed": res.seed, "case": l, "implementation_observed": o[-300:],
                                                      "required": "the attribute database written in chunks to one controller while another JSON answer is written to a second controller between two chunks: a controller does not receive its own well-formed answer (%s)" % o[-40:],
                                                      "failing_input_found": True, "replay": "python3 tools/check.py C14 --replay <this file>"}))
        res.obligations.append(("implementation-side runs: chunked /accessories answer interleaved with another JSON answer at a chunk boundary", bad == 0, "%d runs, %d failing" % (len(sl), bad)))
