"""Where a plain text HTTP message ends: hap.Connection.plainHeaderEnd / plainMessageBytes (through hap.VerifPlainReads and
hap.VerifPlainHeaderEnd, build tag verif) against Model/PlainFrame.v, byte for byte, plus what C05 needs of the code by itself:
no read of the plain text phase crosses the end of a request (what is behind a pair-verify finish is the encrypted stream)."""
from .. import core

CORR = "correspondence model<->code, family plain (the end of a plain text message: Model/PlainFrame.v against hap.Connection.plainHeaderEnd / plainMessageBytes)"


def first_empty_line(s):
    """reference, written from the statement and not from the code: length of the shortest prefix ending with an empty line"""
    for n in range(2, len(s) + 1):
        if s[:n].endswith(b"\n\n") or s[:n].endswith(b"\n\r\n"):
            return n
    return None


def message(rng, i):
    """one request as net/http reads it; returns (bytes, oracle answer, length of the header)"""
    nl = lambda: rng.choice([b"\r\n", b"\r\n", b"\n"])
    kind = rng.choice(["cl", "cl", "cl", "cl0", "none", "chunked", "garbage"])
    body = bytes(rng.choice([10, 13, 10, 97, 98, 0, 255, 58]) for _ in range(rng.choice([1, 2, 3, 4, 5, 17, 40, 300, 1500])))
    if kind == "garbage":
        head = rng.choice([b"NOTHTTP", b"GET", b"x y z", b""]) + nl() + (b"H: 1" + nl() if rng.random() < 0.5 else b"")
        if not head.endswith(b"\n"):
            head += b"\n"
        head += nl()
        n = first_empty_line(head)
        return head[:n], "B", n
    head = rng.choice([b"POST", b"GET", b"PUT"]) + b" /m%d HTTP/1.1" % i + nl() + b"Host: x" + nl()
    if rng.random() < 0.6:
        head += b"X-Pad: " + b"p" * rng.choice([0, 1, 5, 60, 200, 900]) + nl()
    # field names in any spelling net/http accepts (it folds their case), optional white space around the value
    clname = rng.choice([b"Content-Length", b"Content-Length", b"content-length", b"CONTENT-LENGTH", b"Content-length", b"cOnTeNt-LeNgTh"])
    tename = rng.choice([b"Transfer-Encoding", b"transfer-encoding", b"TRANSFER-ENCODING", b"Transfer-encoding"])
    sep = rng.choice([b": ", b": ", b":", b":  ", b":\t"])
    if kind == "cl":
        head += clname + sep + b"%d" % len(body) + rng.choice([b"", b"", b" "]) + nl()
        orc = str(len(body))
    elif kind == "cl0":
        head += clname + sep + b"0" + nl()
        body, orc = b"", "0"
    elif kind == "none":
        body, orc = b"", "0"
    else:
        head += tename + sep + rng.choice([b"chunked", b"chunked", b"Chunked"]) + nl()
        body, orc = b"", "U"
    if rng.random() < 0.4:
        head += b"X-Last: \t v " + nl()
    head += nl()
    return head + body, orc, len(head)


def requests(rng):
    stream, orcs, ends = b"", [], []
    for k in range(rng.randrange(1, 5)):
        m, o, hl = message(rng, k)
        stream += m
        orcs.append(o)
        if o == "U":
            stream += b"0\r\n\r\n"
            orcs.append("B")
            break
        ends.append(len(stream))
    return stream, orcs, ends


def world(rng, i):
    """the connection and the HTTP layer above it: arrivals, reads, a pair-verify handler that accepts, responses that end"""
    stream, orcs, ends = requests(rng)
    if len(stream) > 2500:
        stream, orcs, ends = requests(rng)
    evs, arrived = [], 0
    if ends and rng.random() < 0.4:
        # orderly: every request arrives with 0, 1 or 2 bytes of what follows it, is read to its end, the HTTP layer reads on
        # (the byte it reads ahead while the request is handled), a handler may accept, the response ends
        for e in ends:
            k = e - arrived + rng.choice([0, 1, 1, 2])
            if k > 0:
                evs.append("A%d" % k)
                arrived += k
            evs += ["R%d" % rng.choice([4096, 4096, 512]) for _ in range(rng.randrange(2, 6))] + ["R1"]
            if rng.random() < 0.3:
                evs += ["V", "R1", "A3", "R4096"]
            evs.append("D")
        evs += ["A10000", "R4096", "R4096"]
        return {"id": "pw%d" % i, "kind": "world", "line": "pw %s %s %s" % (stream.hex(), ",".join(evs), ",".join(orcs)), "meta": {"kind": "world"}}
    pv = rng.choice([0.0, 0.02, 0.05])
    for _ in range(rng.randrange(5, 70)):
        r = rng.random()
        if r < 0.25 and arrived < len(stream):
            k = rng.choice([1, 2, 5, 40, 200, 1500, 10000])
            evs.append("A%d" % k)
            arrived += k
        elif r < 0.82:
            evs.append("R%d" % rng.choice([1, 2, 16, 100, 512, 4096]))
        elif r < 0.82 + pv:
            evs.append("V")
        else:
            evs.append("D")
    if rng.random() < 0.6:
        evs += ["V"] + [rng.choice(["R16", "R4096", "A50", "D", "R1"]) for _ in range(rng.randrange(1, 8))]
    return {"id": "pw%d" % i, "kind": "world", "line": "pw %s %s %s" % (stream.hex(), ",".join(evs), ",".join(orcs)), "meta": {"kind": "world"}}


def gen(rng, tier):
    cases = []
    n = 160 if tier == "quick" else 8000
    for i in range(n):
        r = i % 4
        if i % 8 in (1, 5):
            cases.append(world(rng, i))
            continue
        if r == 3:
            # plainHeaderEnd by itself: any bytes handed over before (without an empty line), any next bytes
            alpha = [10, 13, 10, 13, 120, 32]
            h = bytes(rng.choice(alpha) for _ in range(rng.randrange(0, 9)))
            e = first_empty_line(h)
            if e is not None:
                h = h[:e - 1]
            b = bytes(rng.choice(alpha) for _ in range(rng.randrange(0, 9)))
            cases.append({"id": "he%d" % i, "kind": "header-end", "line": "he %s %s" % (h.hex() or "-", b.hex() or "-"), "meta": {"kind": "header-end"}})
            continue
        if r == 2:
            # line-end soup: no header in it is a request for net/http (no "HTTP/x.y" can be spelled), every answer is "not a request"
            stream = bytes(rng.choice([10, 13, 10, 13, 120, 32, 58]) for _ in range(rng.randrange(1, 60)))
            orc, ends = "-", []
            kind = "soup"
        else:
            stream, orcs, ends = b"", [], []
            for k in range(rng.randrange(1, 5)):
                m, o, hl = message(rng, k)
                stream += m
                orcs.append(o)
                if o == "U":
                    # the length of the body is unknown: from here on the code cannot tell where messages end; the chunked
                    # body's last chunk looks like a header to it, which is not a request
                    stream += b"0\r\n\r\n"
                    orcs.append("B")
                    break
                ends.append(len(stream))
            orc = ",".join(orcs)
            kind = "requests"
        segs, rest = [], stream
        while rest:
            k = rng.choice([1, 2, 3, 7, 64, 100, 1448, 5000])
            segs.append(rest[:k])
            rest = rest[k:]
        pat = [rng.choice([1, 2, 3, 16, 100, 512, 4096]) for _ in range(rng.randrange(1, 5))]
        if len(stream) > 600:
            pat = [max(p, 16) for p in pat]
        need = len(stream) + 8
        maxes = [pat[j % len(pat)] for j in range(need)]
        cases.append({"id": "pm%d" % i, "kind": kind, "line": "pm %s %s %s" % (",".join(s.hex() for s in segs), ",".join(map(str, maxes)), orc),
                      "meta": {"kind": kind, "ends": ends, "total": len(stream)}})
    # directed: the header of 9586e4d cut inside the empty line; "\n\r" + "\n"; a lone "\r" between two "\n"
    cases.append({"id": "hed0", "kind": "header-end", "line": "he %s %s" % (b"GET /\nH:1\n".hex(), b"\nP".hex()), "meta": {"kind": "header-end"}})
    cases.append({"id": "hed1", "kind": "header-end", "line": "he %s %s" % (b"x\n\r".hex(), b"\nP".hex()), "meta": {"kind": "header-end"}})
    cases.append({"id": "hed2", "kind": "header-end", "line": "he %s %s" % (b"x\n\r".hex(), b"\r\n\n".hex()), "meta": {"kind": "header-end"}})
    cases.append({"id": "hed3", "kind": "header-end", "line": "he %s %s" % (b"\r".hex(), b"\n\r\n".hex()), "meta": {"kind": "header-end"}})
    return cases


def nontrivial(c):
    return c["kind"] != "soup" or "0a0a" in c["line"] or "0a0d0a" in c["line"]


def outcome_class(c, obs):
    if c["line"].startswith("pw "):
        return "world/" + ("secure" if obs.endswith(" s") or " s " in obs else "plain") + ("+withheld" if " z/" in obs else "")
    if c["line"].startswith("he "):
        return "header-end/" + ("none" if obs == "-1" else "found")
    return c["kind"] + ("/unframed" if obs.endswith("/1") else "/framed")


def oracle(c, obs):
    if obs.startswith("panic") or obs in ("NO-OUTPUT", "badcase") or obs.startswith("DRIVER"):
        return "harness failure: " + obs[:80]
    meta = c.get("meta") or {}
    t = c["line"].split(" ")
    if t[0] == "pw":
        # from the statement, not from the model: what is handed over in plain text is a prefix of what arrived, in order, and
        # nothing is handed over once a pair-verify handler has accepted
        stream, evs, outs = bytes.fromhex(t[1]), t[2].split(","), obs.split(" ")
        if len(evs) != len(outs):
            return "missing observations"
        got, accepted = b"", False
        for e, o in zip(evs, outs):
            if e == "V":
                accepted = True
            if o.startswith("h:"):
                if accepted:
                    return "plain text handed over after a pair-verify handler accepted: " + o[:60]
                got += bytes.fromhex(o[2:].split("/")[0])
        if not stream.startswith(got):
            return "what was handed over in plain text is not a prefix of what arrived"
        return None
    if t[0] == "he":
        h, b = [bytes.fromhex("" if x == "-" else x) for x in t[1:3]]
        if first_empty_line(h) is not None:
            return None
        e = first_empty_line(h + b)
        want = -1 if e is None else e - len(h)
        if str(want) != obs:
            return "the header handed over so far plus these bytes ends (first empty line) at %d of these bytes, plainHeaderEnd says %s" % (want, obs)
        return None
    if meta.get("kind") == "requests":
        cum, hit = 0, set()
        for st in ([] if obs == "-" else obs.split(" ")):
            n = int(st.split("/")[0])
            for e in meta["ends"]:
                if cum < e < cum + n:
                    return "a read of the plain text phase crosses the end of a request: %d bytes handed over at byte %d, the request ends at %d" % (n, cum, e)
            cum += n
            hit.add(cum)
        if cum != meta["total"]:
            return "the plain text phase handed over %d of %d bytes" % (cum, meta["total"])
    return None
