"""C09 — full-stack check (see stackprops.py / stackcommon.py)."""
from . import stackprops as sp, stackcommon as sc

ID = "C09"
FAMILY = "stack"
RETRY = 2
RULE = 'verified controller: writes (PUT) and application sets of bools, ints, floats, strings with quotes / backslashes / HTML characters / non-BMP runes / 2100 bytes, then GET for random id lists mixing existing (readable or not) and missing ids, /accessories of 4 or 16 accessories; remote-update callbacks. non-trivial = a GET after a write'
ASSUMPTIONS = ["symbolic cryptography in the model (forging is impossible by construction of the message alphabet: INT-CTXT of ChaCha20-Poly1305, EUF-CMA of Ed25519, SRP-6a soundness, CDH on Curve25519, HKDF as a random oracle are assumed, not proved); net/http request parsing is modelled as 400-and-close for ciphertext on a plaintext connection; the reference controller's abstract message kinds are realised by concrete builders in harness/cmd/hcdrv/stack.go"]
TRUSTED = ["reference controller harness/cmd/hcdrv/refctl.go (math/big SRP with the RFC 3526 prime re-derived from pi, crypto/ed25519, x/crypto curve25519 / chacha20poly1305 / hkdf)", "scenario translation ocaml/fam_stack.ml and canonicalisation tools/vlib/props/stackcommon.py"]
EXTRA_FILES = ("Proofs/HapProofs.v", "Proofs/CharacProofs.v")
gen = sp.gen_c09
oracle = sp.oracle_c09
same = sc.same


def nontrivial(c):
    return len(c["line"].split(" ")) > 6


def outcome_class(c, obs):
    return c["kind"]


def classify(c, obs, why):
    return None


class Resp:
    """responses written in parts mixed with notifications, at hap.Connection (model: Model/Respond.v)"""
    @staticmethod
    def nontrivial(c):
        return " N:" in c["line"] and " P:" in c["line"]

    @staticmethod
    def outcome_class(c, obs):
        return "resp/" + ("pending" if not obs.endswith("pending=") else "drained")

    @staticmethod
    def classify(c, obs, why):
        return None

    @staticmethod
    def oracle(c, obs):
        """independent of the model: scanning what reached the socket, between two parts of one response there is no
        notification; every notification made outside a request or before a finished one arrived exactly once, in order"""
        if not obs.startswith("out="):
            return "harness failure: " + obs[:80]
        out = [x for x in obs.split(" ")[0][4:].split(",") if x]
        pend = [x for x in obs.split(" pending=")[1].split(",") if x]
        ops = c["line"].split(" ")[1:]
        want_notes = ["N:" + o[2:] for o in ops if o.startswith("N:")]
        got_notes = [x for x in out if x.startswith("N:")] + ["N:" + x for x in pend]
        if got_notes != want_notes:
            return "notifications made %s, written / kept %s (each exactly once, in order)" % (len(want_notes), len(got_notes))
        if [x for x in out if x.startswith("P:")] != ["P:" + o[2:] for o in ops if o.startswith("P:")]:
            return "the parts of the responses are not what the server wrote"
        # which response each written part belongs to
        resp, k, owner = 0, 0, []
        for o in ops:
            if o == "B":
                resp += 1
            elif o.startswith("P:"):
                owner.append(resp)
        last, noted = None, False
        for x in out:
            if x.startswith("N:"):
                noted = True
            else:
                if last == owner[k] and noted:
                    return "a notification was written between two parts of response %d (the controller cannot read the response any more)" % owner[k]
                last, noted = owner[k], False
                k += 1
        return None


def gen_resp(rng, tier):
    cases = []
    for i in range(60 if tier == "quick" else 1500):
        ops, inside = [], False
        for _ in range(rng.randrange(2, 14)):
            r = rng.random()
            if not inside:
                if r < 0.4:
                    ops.append("B")
                    inside = True
                else:
                    ops.append("N:4e" + bytes(rng.getrandbits(8) for _ in range(rng.randrange(0, 5))).hex())
            else:
                if r < 0.45:
                    ops.append("P:50" + bytes(rng.getrandbits(8) for _ in range(rng.randrange(0, 6))).hex())
                elif r < 0.8:
                    ops.append("N:4e" + bytes(rng.getrandbits(8) for _ in range(rng.randrange(0, 5))).hex())
                else:
                    ops.append("F")
                    inside = False
        if rng.random() < 0.7 and inside:
            ops.append("F")
        cases.append({"id": "rs%d" % i, "kind": "resp", "line": "resp " + " ".join(ops)})
    return cases


def run(res, a):
    import json, sys
    from .. import core
    mod = sys.modules[__name__]
    res.rule = RULE + ("; additionally, at hap.Connection: histories of request starts, response parts, request ends and notifications "
                       "(what reaches the socket, what is kept back), against Model/Respond.v")
    res.assumptions = list(ASSUMPTIONS)
    core.build_everything(res, ID, extra_files=EXTRA_FILES + ("Proofs/RespondProofs.v",))
    res.trusted += list(TRUSTED)
    if a.replay:
        rep = json.load(open(a.replay))
        if rep["case"].startswith("resp "):
            core.run_correspondence(res, "connw", [{"id": "replay", "line": rep["case"], "kind": "resp"}], Resp, corr_name="correspondence model<->code, family connw (responses and notifications)")
        else:
            core.run_correspondence(res, FAMILY, [{"id": "replay", "line": rep["case"], "kind": "replay", "meta": rep.get("meta") or {}}], mod)
        return
    rng = core.rng_for(ID, res.seed)
    core.run_correspondence(res, FAMILY, core.load_corpus(FAMILY) + gen(rng, a.tier), mod)
    core.run_correspondence(res, "connw", gen_resp(rng, a.tier), Resp, corr_name="correspondence model<->code, family connw (responses and notifications)")
