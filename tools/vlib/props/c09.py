"""C09 — full-stack check (see stackprops.py / stackcommon.py)."""
from . import stackprops as sp, stackcommon as sc

ID = "C09"
FAMILY = "stack"
RETRY = 2
RULE = 'verified controller: writes (PUT) and application sets of bools, ints, floats, strings with quotes / backslashes / HTML characters / non-BMP runes / 2100 bytes, then GET for random id lists mixing existing (readable or not) and missing ids, /accessories of 4 or 16 accessories; remote-update callbacks. non-trivial = a GET after a write'
ASSUMPTIONS = ["symbolic cryptography in the model (forging is impossible by construction of the message alphabet: INT-CTXT of ChaCha20-Poly1305, EUF-CMA of Ed25519, SRP-6a soundness, CDH on Curve25519, HKDF as a random oracle are assumed, not proved); net/http request parsing is modelled as 400-and-close for ciphertext on a plaintext connection; the reference controller's abstract message kinds are realised by concrete builders in harness/cmd/hcdrv/stack.go"]
TRUSTED = ["reference controller harness/cmd/hcdrv/refctl.go (math/big SRP with the RFC 3526 prime re-derived from pi, crypto/ed25519, x/crypto curve25519 / chacha20poly1305 / hkdf)", "scenario translation ocaml/fam_stack.ml and canonicalisation tools/vlib/props/stackcommon.py"]
EXTRA_FILES = ("Proofs/HapProofs.v", "Proofs/CharacProofs.v")
gen = sp.gen_c09
oracle = sp.oracle_c09
same = sc.same


def nontrivial(c):
    return len(c["line"].split(" ")) > 6


def outcome_class(c, obs):
    return c["kind"]


def classify(c, obs, why):
    return None
