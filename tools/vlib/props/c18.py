"""C18 — storage and pairing database behave like a persistent map."""
import json, os
from .. import core

ID = "C18"
RULE = ("histories of Set/Get/Delete/KeysWithSuffix/Reopen over 1-4 keys (keys with ':' included, so that "
        "the sanitiser matters), values 0..4096 bytes, a third of all Sets overwrite a live key with a strictly "
        "shorter value, Sets of the very value a key held before it was deleted or overwritten; database histories of Save/Load/Remove/List/Reopen with entity names of arbitrary bytes "
        "(valid UTF-8, invalid UTF-8, up to 100 bytes). non-trivial = contains an overwrite of a live key or a "
        "delete of a live key followed by a read")
EXTRA_FILES = ("Proofs/StorageProofs.v",)
ASSUMPTIONS = ["keys are non-empty file names without '/', NUL, not '.'/'..', and do not end in '.tmp' (stated as key_ok in the theorem)",
               "encoding/json round trip of Entity is exercised by the correspondence, not proved",
               "the OS file system implements open/write/rename/remove as modelled (POSIX semantics)"]


def rbytes(rng, n):
    return bytes(rng.getrandbits(8) for _ in range(n))


def gen_key(rng):
    alphabet = b"abcXYZ019._-: " if rng.random() < 0.8 else b"ab1[]?*\\._-"      # also what a file-name pattern treats specially
    n = rng.randrange(1, 9)
    k = bytes(rng.choice(alphabet) for _ in range(n))
    if k.replace(b":", b"") in (b"", b".", b".."):
        k = b"k" + k
    if k.replace(b":", b"").endswith(b".tmp"):
        k += b"x"
    return k


def gen_storage(rng, n, maxops, big):
    cases = []
    for ci in range(n):
        keys = [gen_key(rng) for _ in range(rng.randrange(1, 5))]
        if rng.random() < 0.3:
            keys.append(keys[0].replace(b":", b"") + b":")   # same file after sanitising
        live = {}
        gone = {}
        ops = []
        for _ in range(rng.randrange(2, maxops)):
            r = rng.random()
            k = rng.choice(keys)
            f = k.replace(b":", b"")
            if r < 0.45:
                if f in gone and rng.random() < 0.5:
                    v = gone[f]          # the very value the key held before it was deleted (or before another Set)
                elif f in live and len(live[f]) > 0 and rng.random() < 0.6:
                    v = rbytes(rng, rng.randrange(0, len(live[f])))
                else:
                    L = rng.choice([0, 1, 2, 31, 32, 33, 64, 100]) if rng.random() < 0.7 else rng.randrange(0, big)
                    v = rbytes(rng, L)
                if f in live:
                    gone[f] = live[f]
                live[f] = v
                ops.append("S:%s:%s" % (k.hex(), v.hex()))
            elif r < 0.7:
                ops.append("G:%s" % k.hex())
            elif r < 0.8:
                if f in live:
                    gone[f] = live[f]
                live.pop(f, None)
                ops.append("D:%s" % k.hex())
            elif r < 0.9:
                ops.append("L:%s" % rng.choice([b"", b".entity", b"c", b"X", b"?", b"*", b"[1]", b"1]", b"\\"]).hex())
            else:
                ops.append("R")
        for k in keys:
            ops.append("G:%s" % k.hex())
        ops.append("L:")
        cases.append({"id": "st%d" % ci, "line": "hist " + " ".join(ops), "kind": "storage", "fam": "storage"})
    return cases


def gen_name(rng):
    r = rng.random()
    if r < 0.4:
        return ("ctrl-%d" % rng.randrange(5)).encode()
    if r < 0.6:
        return "contrôleur-Ω-😀"[:rng.randrange(1, 14)].encode("utf-8")
    if r < 0.7:
        return b"AAAAAAAA-BBBB-CCCC-DDDD-EEEEEEEEEEEE"
    n = rng.randrange(1, 101)
    return rbytes(rng, n)


def gen_db(rng, n):
    cases = []
    for ci in range(n):
        names = [gen_name(rng) for _ in range(rng.randrange(1, 4))]
        if ci % 5 == 0:
            # names that are the file-name encoding of another name (its lower-case hex, with and without colons), or that
            # end the way the store's file names do: every entity name is a name of its own
            h = names[0].hex()
            names += [h.encode(), ":".join(h[i:i + 2] for i in range(0, len(h), 2)).encode()][:rng.randrange(1, 3)] + [names[0] + b".entity"][:rng.randrange(2)]
            names = [x for x in names if len(x) <= 100] or [b"ab", b"6162"]
        last = {}
        ops = []
        for _ in range(rng.randrange(2, 14)):
            r = rng.random()
            nm = rng.choice(names)
            if r < 0.4:
                if nm in last and rng.random() < 0.4:
                    ops.append(last[nm])          # the very same entity again (a controller paired again with the same key)
                else:
                    ops.append("SV:%s:%s:%s" % (nm.hex(), rbytes(rng, rng.choice([0, 32])).hex(), rbytes(rng, rng.choice([0, 0, 64])).hex()))
                    last[nm] = ops[-1]
            elif r < 0.65:
                ops.append("LD:%s" % nm.hex())
            elif r < 0.8:
                ops.append("RM:%s" % nm.hex())
            elif r < 0.9:
                ops.append("LS")
            else:
                ops.append("R")
        for nm in names:
            ops.append("LD:%s" % nm.hex())
        ops.append("LS")
        cases.append({"id": "db%d" % ci, "line": "db " + " ".join(ops), "kind": "db", "fam": "db"})
    return cases


def ref_run(line):
    """in-memory reference map (the oracle of the property), independent of the Coq model"""
    toks = line.split(" ")
    out = []
    if toks[0] == "hist":
        m = {}
        for t in toks[1:]:
            p = t.split(":")
            if p[0] == "S":
                m[bytes.fromhex(p[1]).replace(b":", b"")] = p[2]
            elif p[0] == "G":
                f = bytes.fromhex(p[1]).replace(b":", b"")
                out.append("g=" + m[f] if f in m else "g=nf")
            elif p[0] == "D":
                m.pop(bytes.fromhex(p[1]).replace(b":", b""), None)
            elif p[0] == "L":
                s = bytes.fromhex(p[1])
                out.append("l=" + ",".join(sorted(k.hex() for k in m if k.endswith(s))))
    else:
        m = {}
        for t in toks[1:]:
            p = t.split(":")
            if p[0] == "SV":
                m[p[1]] = "%s.%s.%s" % (p[1], p[2], p[3])
            elif p[0] == "LD":
                out.append("ld=" + m[p[1]] if p[1] in m else "ld=nf")
            elif p[0] == "RM":
                m.pop(p[1], None)
            elif p[0] == "LS":
                out.append("ls=" + ",".join(sorted(m.values())))
    return out


def nontrivial(c):
    toks = c["line"].split(" ")
    seen = set()
    for t in toks[1:]:
        p = t.split(":")
        if p[0] in ("S", "SV"):
            f = bytes.fromhex(p[1]).replace(b":", b"")
            if f in seen:
                return True
            seen.add(f)
        if p[0] in ("D", "RM") and bytes.fromhex(p[1]).replace(b":", b"") in seen:
            return True
    return False


def outcome_class(c, obs):
    if obs.startswith("panic") or obs.startswith("DRIVER"):
        return "panic"
    return c["kind"] + ("/nf" if "=nf" in obs else "/found")


def oracle(c, obs):
    if obs.startswith("panic") or obs.startswith("DRIVER-DIED") or obs == "NO-OUTPUT":
        return "no panic; observed " + obs[:80]
    if "!earlier-result-changed" in obs:
        return "the bytes an earlier Get returned changed when a later Get was made (a caller that keeps a result, as Config.load does, no longer holds the stored value)"
    want = ref_run(c["line"])
    got = obs.split(" ") if obs else []
    if got != want:
        for i, (a, b) in enumerate(zip(got + ["<missing>"] * len(want), want)):
            if a != b:
                return "result #%d is %s, a persistent map returns %s" % (i, a[:120], b[:120])
        return "extra results"
    return None


def classify(c, obs, why):
    return None


def concurrent_sets(res, a, pid):
    """implementation side: two goroutines set the same key at the same time, round after round (two connections adding a
    pairing for the same controller do that): both sets succeed, the key holds one of the two values in full"""
    import os
    rng = core.rng_for(pid + "/cs", res.seed)
    cases = []
    for i in range(3 if a.tier == "quick" else 12):
        long, short = rbytes(rng, rng.choice([700, 4096, 300])), rbytes(rng, rng.choice([0, 10, 64]))
        key = rng.choice([b"k", b"616263.entity", b"version"])
        cases.append({"id": "cs%d" % i, "line": "hist CS:%s:%s:%s:%d" % (key.hex(), long.hex(), short.hex(), 400 if a.tier == "quick" else 2000)})
    obs = core.shard_run(os.path.join(core.BUILD, "hcdrv"), "storage", ["%s %s" % (c["id"], c["line"]) for c in cases])
    bad = 0
    for c in cases:
        o = obs.get(c["id"], "NO-OUTPUT")
        res.cases += 1
        res.count("kind:concurrent-sets")
        if o != "cs=ok":
            bad += 1
            res.violations.append(("concurrent-sets", {"property": pid, "family": "storage", "seed": res.seed, "case": c["line"], "implementation_observed": o[:200],
                                                       "required": "two overlapping sets of one key: both must succeed and the key must hold one of the two values in full (observed %s)" % o[:60],
                                                       "failing_input_found": True, "replay": "python3 tools/check.py %s --replay <this file>" % pid}))
    res.obligations.append(("implementation-side runs: overlapping sets of one key", bad == 0, "%d runs, %d failing" % (len(cases), bad)))
    # ... and a reader while a key is overwritten again and again: every Get returns one of the two values, never not-found
    cg = [{"id": "cg%d" % i, "line": "hist CG:%s:%s:%s:%d" % (rng.choice([b"k", b"616263.entity"]).hex(), rbytes(rng, 300).hex(), rbytes(rng, 40).hex(), 300 if a.tier == "quick" else 3000)}
          for i in range(2 if a.tier == "quick" else 8)]
    obs = core.shard_run(os.path.join(core.BUILD, "hcdrv"), "storage", ["%s %s" % (c["id"], c["line"]) for c in cg])
    gbad = 0
    for c in cg:
        o = obs.get(c["id"], "NO-OUTPUT")
        res.cases += 1
        res.count("kind:read-during-overwrite")
        if o != "cg=ok":
            gbad += 1
            res.violations.append(("read-during-overwrite", {"property": pid, "family": "storage", "seed": res.seed, "case": c["line"], "implementation_observed": o[:200],
                                                             "required": "a Get made while the key is being overwritten returns the previous or the new value, never not-found or anything else (observed %s)" % o[:60],
                                                             "failing_input_found": True, "replay": "python3 tools/check.py %s --replay <this file>" % pid}))
    res.obligations.append(("implementation-side runs: reads while a key is overwritten", gbad == 0, "%d runs, %d failing" % (len(cg), gbad)))


def run(res, a):
    res.rule = RULE
    res.assumptions = ASSUMPTIONS
    core.build_everything(res, ID, extra_files=EXTRA_FILES)
    rng = core.rng_for(ID, res.seed)
    if a.replay:
        rep = json.load(open(a.replay))
        fam = rep.get("family", "storage")
        if " CS:" in rep["case"] or " CG:" in rep["case"]:
            import os
            o = core.shard_run(os.path.join(core.BUILD, "hcdrv"), "storage", ["replay " + rep["case"]]).get("replay", "NO-OUTPUT")
            res.cases += 1
            if o not in ("cs=ok", "cg=ok"):
                res.violations.append(("concurrent-sets", dict(rep, implementation_observed=o[:200])))
            return
        core.run_correspondence(res, fam, [{"id": "replay", "line": rep["case"], "kind": fam}], __import__(__name__, fromlist=["x"]))
        return
    me = __import__(__name__, fromlist=["x"])
    q = a.tier == "quick"
    st = core.load_corpus("storage") + gen_storage(rng, 1500 if q else 40000, 30, 300 if q else 4097)
    if not q:
        st += gen_storage(rng, 300, 12, 4097)
    core.run_correspondence(res, "storage", st, me)
    dbc = core.load_corpus("db") + gen_db(rng, 500 if q else 20000)
    core.run_correspondence(res, "db", dbc, me)
    concurrent_sets(res, a, ID)
