"""C07 — reads on an encrypted connection deliver exactly the bytes sent."""
import json
from .. import core
from . import c05, c06

ID = "C07"
RULE = ("pass 1: honest ciphertext streams (controller -> accessory) for message sequences with lengths around 0, 1, the "
        "caller's buffer size, 1023..1025 and k*1024 (and streams of a self-framing peer with well-formed empty frames), sealed by the x/crypto reference framer and by the Gallina model; "
        "pass 2: hap.Connection.Read over a scripted net.Conn for segmentations of the stream (one byte per segment, "
        "every split offset of short 2-3 frame streams, whole stream in one segment, several frames per segment, random "
        "cuts), read timeouts between segments, caller buffer sizes 1, 7, 16, exact message length, 4096, 8192 and "
        "random sequences. non-trivial = the segmentation splits or coalesces frames, or a buffer is smaller than a frame")
EXTRA_FILES = ("Proofs/ConnReadProofs.v", "Proofs/FramingProofs.v")
ASSUMPTIONS = ["the socket delivers the peer's bytes in order (TCP); segmentation and timeouts are the schedule the theorem quantifies over",
               "net/http's own buffering above Connection.Read is not part of this property"]


def rb(rng, n):
    return bytes(rng.getrandbits(8) for _ in range(n))


def segmentations(rng, wire, frames, small, quick):
    segs = []
    segs.append([wire])
    if len(wire) <= 400:
        segs.append([wire[i:i + 1] for i in range(len(wire))])
    if small:
        for cut in range(1, len(wire)):
            segs.append([wire[:cut], wire[cut:]])
    # frame-aligned, coalesced pairs
    if len(frames) >= 2:
        segs.append([frames[0] + frames[1]] + frames[2:])
        segs.append(frames)
        # header split from body
        segs.append([wire[:1], wire[1:2], wire[2:]])
    for _ in range(4 if quick else 25):
        cuts = sorted(set(rng.randrange(1, len(wire)) for _ in range(rng.randrange(1, 8)))) if len(wire) > 1 else []
        pieces = [wire[a:b] for a, b in zip([0] + cuts, cuts + [len(wire)])]
        segs.append([p for p in pieces if p])
    return segs


def run(res, a):
    me = __import__(__name__, fromlist=["x"])
    res.rule = RULE
    res.assumptions = ASSUMPTIONS
    core.build_everything(res, ID, extra_files=EXTRA_FILES)
    res.trusted += c06.TRUSTED + ["scripted net.Conn in harness/cmd/hcdrv/connread.go"]
    rng = core.rng_for(ID, res.seed)
    quick = a.tier == "quick"
    if a.replay:
        rep = json.load(open(a.replay))
        c = {"id": "replay", "line": rep["case"], "kind": "replay", "meta": rep.get("meta")}
        core.run_correspondence(res, "conn", [c], me)
        return
    secrets = [rb(rng, 32) for _ in range(3)]
    streams = []
    shapes = [[5, 3], [0 + 1, 1], [16, 16, 16], [7], [1024], [1023, 1025], [2048, 1], [1024, 1024, 5], [1025], [4096], [3000, 10], [1, 1, 1, 1]]
    if not quick:
        shapes += [[rng.choice([1, 2, 15, 16, 17, 1023, 1024, 1025, 2047, 2048, 2049, 3072]) for _ in range(rng.randrange(1, 5))] for _ in range(40)]
    for sh in shapes:
        streams.append((rng.choice(secrets), [rb(rng, n) for n in sh]))
    p1 = [{"id": "seal%d" % i, "line": "seal %s cli %s" % (s.hex(), " ".join(m.hex() for m in ms)), "kind": "seal"}
          for i, (s, ms) in enumerate(streams)]
    # a peer that frames by itself and sends well-formed EMPTY frames (to carry an empty message, to end a message of
    # k*1024 bytes): the bytes before and after them must arrive all the same
    fshapes = [[0, 5], [5, 0, 3], [0, 0, 7], [1024, 0, 9], [1024, 1024, 0, 1], [3, 0]]
    if not quick:
        fshapes += [[rng.choice([0, 0, 1, 16, 1024]) for _ in range(rng.randrange(2, 6))] for _ in range(20)]
    for sh in fshapes:
        sec, ms = rng.choice(secrets), [rb(rng, n) for n in sh]
        streams.append((sec, ms))
        p1.append({"id": "seal%d" % (len(streams) - 1), "line": "sealf %s cli %s" % (sec.hex(), " ".join(m.hex() if m else "-" for m in ms)), "kind": "seal"})

    class P1:
        oracle = staticmethod(lambda c, obs: None if obs.startswith("w0=") else "reference framer failed")
        nontrivial = staticmethod(lambda c: True)
        shard_group = staticmethod(c05.shard_group)
    go1, mo1 = core.run_correspondence(res, "frame", p1, P1, corr_name="correspondence Gallina sealing <-> x/crypto reference framer")
    cases = []
    for i, (shared, msgs) in enumerate(streams):
        obs = go1.get("seal%d" % i, "")
        if obs != mo1.get("seal%d" % i, "") or not obs:
            continue
        wire = b"".join(bytes.fromhex(t.split("=", 1)[1]) for t in obs.split(" ") if "=" in t)
        frames = c05.frames_of(wire)
        plain = b"".join(msgs)
        small = len(wire) <= 60
        total = len(plain)
        for seg in segmentations(rng, wire, frames, small, quick):
            for bsz in ([[4096], [1], [7], [16], [max(1, len(msgs[0]))], [8192], None] if not small else [[4096], [3], None]):
                if bsz is None:
                    sizes = [rng.choice([1, 2, 7, 16, 100, 1024, 4096]) for _ in range(40)]
                else:
                    sizes = bsz * 1
                # enough reads to drain everything (+ timeouts) and one more that must block, not fail
                tmo = rng.random() < 0.5
                evs = []
                for p in seg:
                    if tmo and rng.random() < 0.3:
                        evs.append("T")
                    evs.append("D:" + p.hex())
                nreads = 0
                need = total
                seq = []
                k = 0
                while need > 0 and nreads < 6000:
                    b = sizes[k % len(sizes)]
                    seq.append(b)
                    k += 1
                    nreads += 1
                    need -= 0  # unknown how much each read returns; over-provision below
                    if len(seq) >= (total // max(1, min(sizes)) + len(evs) + len(frames) + 8):
                        break
                if len(seq) > 3000:
                    continue
                if not seq:
                    seq = sizes[:1] * 3        # nothing but empty frames was sent: the reads find nothing and must block, not fail
                seq = [str(x) for x in seq]
                if rng.random() < 0.3 and len(seq) > 1:
                    # the accessory writes on the connection between reads (answers and events go out while a request is
                    # still being read): a frame that was read only in part must still be delivered in full
                    for _ in range(rng.randrange(1, 4)):
                        seq.insert(rng.randrange(1, min(len(seq), 12)), "w%d" % rng.choice([1, 40, 1500]))
                cases.append({"id": "cr%d" % len(cases), "kind": "read",
                              "line": "cr %s %s %s" % (shared.hex(), ",".join(evs) if evs else "-", ",".join(seq)),
                              "meta": {"plain": plain.hex(), "nframes": len(frames), "nseg": len(seg)}})
    core.run_correspondence(res, "conn", cases, me)
    # full stack, implementation side: the keys of an encrypted connection are replaced (pair-verify again) while its read is
    # waiting for the next bytes; everything sent before and after must arrive
    import os
    from . import stackcommon as sc
    lines = ["sk tbl=%s N:h S:h:c0:ok N:v V:v:c0:ok G:v:2.9 V:v:c0:ok G:v:2.9,4.13 P:v:2.9:true:- V:v:c0:ok A:v G:v:2.9" % sc.table()] * (2 if quick else 8)
    obs = core.shard_run(os.path.join(core.BUILD, "hcdrv"), "stack", ["rk%d %s" % (i, l) for i, l in enumerate(lines)])
    bad = 0
    for i, l in enumerate(lines):
        o = obs.get("rk%d" % i, "NO-OUTPUT")
        res.cases += 1
        res.count("kind:rekey")
        toks = o.split(" ")
        if len(toks) != 9 or not all(t.startswith(("S=st2/st4/st6", "V=st2/st4[M2ok]", "G=200", "P=204", "A=200")) for t in toks):
            bad += 1
            res.violations.append(("rekey", {"property": ID, "family": "stack", "seed": res.seed, "case": l, "implementation_observed": o[:400],
                                             "required": "after the keys of an encrypted connection were replaced (pair-verify again) a request sent under the new keys is not delivered to the accessory / not answered",
                                             "failing_input_found": True, "replay": "python3 tools/check.py C07 --replay <this file>"}))
    res.obligations.append(("implementation-side runs: keys replaced on an encrypted connection (pair-verify again)", bad == 0, "%d runs, %d failing" % (len(lines), bad)))
    # ... and at the connection itself: the session is replaced while a Read is waiting on the socket, then bytes sealed under
    # the new keys arrive
    sw = ["crsw %s %s %s %s" % (rb(rng, 32).hex(), rb(rng, 32).hex(), rb(rng, a_).hex(), rb(rng, b_).hex()) for a_, b_ in [(5, 9), (1024, 3), (40, 2100)] * (1 if quick else 5)]
    obs = core.shard_run(os.path.join(core.BUILD, "hcdrv"), "conn", ["sw%d %s" % (i, l) for i, l in enumerate(sw)])
    bad = 0
    for i, l in enumerate(sw):
        o = obs.get("sw%d" % i, "NO-OUTPUT")
        t = l.split(" ")
        res.cases += 1
        res.count("kind:session-switch-while-reading")
        if o != "r1=%s r2=%s" % (t[3], t[4]):
            bad += 1
            res.violations.append(("switch", {"property": ID, "family": "conn", "seed": res.seed, "case": l, "implementation_observed": o[:300],
                                              "required": "the session of the connection was replaced while a Read was waiting on the socket; the bytes the peer then sent under the new keys were not delivered (%s)" % o.split(" r2=")[-1][:40],
                                              "failing_input_found": True, "replay": "python3 tools/check.py C07 --replay <this file>"}))
    res.obligations.append(("implementation-side runs: session replaced while a Read waits on the socket", bad == 0, "%d runs, %d failing" % (len(sw), bad)))


def shard_group(line):
    return line.split(" ")[2]


def nontrivial(c):
    m = c.get("meta") or {}
    return m.get("nseg", 1) != m.get("nframes", 1) or ",1," in c["line"] or ",7," in c["line"]


def outcome_class(c, obs):
    last = obs.split(" ")[-1] if obs else "none"
    return "ends:" + last.split(":")[0] + ("/timeouts" if " t" in (" " + obs) else "")


def oracle(c, obs):
    if obs.startswith("panic") or obs.startswith("DRIVER-DIED") or obs == "NO-OUTPUT":
        return "no panic; observed " + obs[:80]
    meta = c.get("meta")
    if not meta:
        return None
    plain = bytes.fromhex(meta["plain"])
    got = b""
    for r in obs.split(" "):
        if r.startswith("d:"):
            d = bytes.fromhex(r[2:])
            if len(d) == 0:
                return "a read returned (0, nil)"
            got += d
        elif r == "t":
            continue
        elif r == "b":
            break
        elif r.startswith("e:"):
            return "end-of-stream / decryption error (%s) signalled while the peer is connected and sends well-formed frames; %d of %d bytes had been delivered" % (r, len(got), len(plain))
    if plain[:len(got)] != got:
        return "delivered bytes are not a prefix of what the peer sent (first difference at offset %d)" % next(i for i in range(len(got)) if got[i] != plain[i:i + 1][0:1] or True)
    if obs.split(" ")[-1] == "b" and got != plain:
        return "the reader blocks although %d sent bytes were never delivered (lost)" % (len(plain) - len(got))
    return None


def classify(c, obs, why):
    return None
