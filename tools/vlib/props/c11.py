"""C11 — read, write and event permissions are enforced for remote peers (API level for every catalog
constructor and custom permission sets; HTTP level on the full stack)."""
import json
from .. import core
from . import stackprops as sp, stackcommon as sc, c12

ID = "C11"
RULE = ("API level: every characteristic constructor of the catalog (about 170, with their real permissions, bounds and "
        "updateOnSameValue flag) and synthetic characteristics with all 8 permission subsets x sequences of remote writes, "
        "local updates and getter refreshes with values of every JSON kind, including the currently stored value; "
        "HTTP level: " + "verified controllers write to characteristics without write permission, read write-only ones, subscribe "
        "to characteristics without event permission and then change them locally. non-trivial = a remote write to a "
        "characteristic without write permission, or any operation on one without read permission")
EXTRA_FILES = ("Proofs/HapProofs.v", "Proofs/CharacProofs.v")
ASSUMPTIONS = ["see C12 for the conversion oracles; see C01 for the symbolic cryptography of the full-stack part"]
TRUSTED = ["reference controller, scenario translation and canonicalisation as for C01"]


class Api:
    """implementation-side oracle for the API-level cases"""
    @staticmethod
    def nontrivial(c):
        t = c["line"].split(" ")
        t = t[1:] if t[0] == "cc" else t
        return "w" not in t[2] or "r" not in t[2]

    @staticmethod
    def outcome_class(c, obs):
        return "api/" + c["kind"].split("/")[0]

    @staticmethod
    def oracle(c, obs):
        if obs.startswith("DRIVER-DIED") or obs == "NO-OUTPUT":
            return "driver failure " + obs[:80]
        t = c["line"].split(" ")
        t = t[1:] if t[0] == "cc" else t
        perms, init, ops = t[2], t[5], t[6:]
        head, _, tail = obs.partition(" cbs=")
        vals = head.split(" ")
        cbs = tail.split(" ")[0].split(",") if tail.split(" ")[0] else []
        prev = init.split(":")[0] + ":" + init.split(":")[1] if init != "nil" else "nil"
        prev = vals[0] if False else None
        cur = None
        nremote_cb = sum(1 for x in cbs if x.startswith("R"))
        if "w" not in perms:
            # no callback may stem from a remote WRITE (R ops); getter refreshes (GR) are not writes
            rconns = [op.split(":")[1] for op in ops if op.startswith("R:")]
            grconns = [op.split(":")[1] for op in ops if op.startswith("GR:")]
            if nremote_cb > len(grconns):
                return "remote-update callbacks (%s) were invoked although the characteristic has no write permission" % ",".join(cbs)[:120]
            last = init
            for i, v in enumerate(vals):
                if v == "panic":
                    break
                if i < len(ops) and ops[i].startswith("R:") and _norm(v) != _norm(last):
                    return "remote write #%d (%s) changed the value of a characteristic without write permission: %s -> %s" % (i, ops[i][:50], last[:40], v[:40])
                last = v
        if "r" not in perms:
            for i, v in enumerate(vals):
                if v not in ("nil", "panic"):
                    return "a characteristic without read permission stores a value after update #%d: %s" % (i, v[:40])
        return None

    same = staticmethod(lambda c, g, m: g == m)


def _norm(v):
    p = v.split(":")
    return ":".join(p[:2]) if p[0] in ("f", "s", "i", "b") and len(p) >= 2 else v


def gen_api(rng, tier):
    cases = c12.gen_ctor_cases(rng, 4 if tier == "quick" else 80)
    for f in c12.FORMATS:
        for perms in ["r", "w", "e", "rw", "re", "we", "rwe", "-"]:
            for _ in range(2 if tier == "quick" else 30):
                init = "nil"
                if "r" in perms:
                    init = {"float": "f:%016x" % c12.fbits(1.0), "bool": "b:0"}.get(f, "i:1" if f in ("uint8", "uint16", "uint32", "int32", "uint64") else "s:" + b"x".hex())
                ops = []
                for _ in range(rng.randrange(1, 6)):
                    k = rng.random()
                    v = c12.gen_val(rng, False)
                    ops.append(("R:%d:%s" % (rng.randrange(1, 3), v)) if k < 0.6 else ("L:" + v if k < 0.9 else "GR:1:" + v))
                cases.append({"id": "cs%d" % len(cases), "kind": "custom/" + f, "line": "ch %s %s - - %s %s" % (f, perms.replace("-", "x"), init, " ".join(ops))})
    return cases


class Http:
    oracle = staticmethod(sp.oracle_c11)
    same = staticmethod(sc.same)
    nontrivial = staticmethod(lambda c: True)
    outcome_class = staticmethod(lambda c, obs: "http")
    RETRY = 2


def run(res, a):
    res.rule = RULE
    res.assumptions = ASSUMPTIONS
    core.build_everything(res, ID, extra_files=EXTRA_FILES)
    res.trusted += TRUSTED
    rng = core.rng_for(ID, res.seed)
    if a.replay:
        rep = json.load(open(a.replay))
        fam = rep.get("family", "stack")
        core.run_correspondence(res, fam, [{"id": "replay", "line": rep["case"], "kind": "replay/x", "meta": {}}], Api if fam == "charac" else Http)
        return
    core.run_correspondence(res, "charac", gen_api(rng, a.tier), Api, corr_name="correspondence model<->code, family charac (API level, every catalog constructor)")
    core.run_correspondence(res, "stack", sp.gen_c11(rng, a.tier), Http)
