"""Shared machinery for the full-stack properties (C01, C02, C03, C04, C09, C10, C11, C13, C20):
the scenario language of the Go stack driver, the canonical (abstract) observation form shared with the
world model (coq/Model/Hap.v via ocaml/fam_stack.ml), and the char table of the fixed accessory set."""
import json, math, os, re, struct, subprocess
from .. import core

_tables = {}


def table_for(opts=""):
    """the characteristic table of the scenario accessories, dumped from the real code (ids, formats, perms, bounds, values)"""
    m = re.search(r"nacc=(\d+)", opts or "")
    nacc = m.group(1) if m else "0"
    if nacc not in _tables:
        out = subprocess.run([os.path.join(core.BUILD, "hcdrv"), "stack"], input=("t sk nacc=%s DUMP\n" % nacc).encode(), stdout=subprocess.PIPE, timeout=60).stdout.decode()
        mm = re.search(r"tbl=(\S+)", out)
        if not mm:
            raise core.BuildError("stack driver did not dump its characteristic table: " + out[:200])
        _tables[nacc] = mm.group(1)
    return _tables[nacc]


def table():
    return table_for("")


def rows_for(line):
    m = re.search(r"tbl=(\S+)", line)
    return rows(m.group(1) if m else table())


def rows(tbl=None):
    out = {}
    for r in (tbl or table()).split(";"):
        cid, fmt, perms, mn, mx, v = r.split(",")
        out[cid] = {"format": fmt, "perms": perms, "min": mn, "max": mx, "value": v}
    return out


def fbits(x):
    return struct.unpack("<Q", struct.pack("<d", float(x)))[0]


def num(x):
    """a JSON number in a case line, annotated for the model with its float64 bits and uint64 truncation"""
    t = int(x)
    u = t % (1 << 64) if -(1 << 63) < t < (1 << 64) else (1 << 63)
    s = repr(x) if isinstance(x, float) and not float(x).is_integer() else str(int(x))
    return "%s@%016x@%d" % (s, fbits(x), u)


def canon_val(js):
    """JSON text of a value -> tagged canonical form shared with the model"""
    v = json.loads(js)
    if v is None:
        return "nil"
    if isinstance(v, bool):
        return "b:1" if v else "b:0"
    if isinstance(v, (int, float)):
        return "num:%r" % float(v)
    if isinstance(v, str):
        return "s:" + v.encode().hex()
    return "x"


def canon_model_val(t):
    if t.startswith("n:") or t.startswith("i:"):
        return "num:%r" % float(int(t[2:]))
    if t.startswith("f:"):
        return "num:%r" % struct.unpack("<d", struct.pack("<Q", int(t[2:], 16)))[0]
    return t


def _canon_entries(s, conv):
    """aid.iid=<val>!<status>,..."""
    if s in ("", "-"):
        return ""
    out = []
    # values may contain commas inside JSON strings: split on ',' followed by digits '.' digits
    parts = re.split(r",(?=\d+\.\d+(?:[=!]|$|,))", s)
    for p in parts:
        m = re.match(r"^(\d+\.\d+)(?:=(.*?))?(?:!(-?\d+))?$", p, flags=re.S)
        if not m:
            out.append("?" + p)
            continue
        e = m.group(1)
        if m.group(2) is not None:
            e += "=" + conv(m.group(2))
        if m.group(3) is not None:
            e += "!" + m.group(3)
        out.append(e)
    return ",".join(out)


def canon_go(obs):
    """implementation observation -> abstract form"""
    out = []
    for tok in split_tokens(obs):
        k, _, v = tok.partition("=")
        if k in ("S", "V"):
            v = re.sub(r"\[.*\]$", "", v)
            out.append(k + "=" + v)
        elif k == "Q":
            out.append("Q=" + v.split(",")[0])
        elif k == "G":
            m = re.match(r"^(\d+):(.*),canary=\d$", v, flags=re.S)
            if m:
                body = m.group(2)
                if m.group(1) == "470":
                    out.append("G=470")
                else:
                    out.append("G=%s:%s" % (m.group(1), _canon_entries(body, canon_val)))
            else:
                out.append("G=" + v)
        elif k == "A":
            m = re.match(r"^(\d+):n\d+,canary=\d;(.*)$", v, flags=re.S)
            if m and m.group(1) == "200":
                out.append("A=200:" + _canon_entries(m.group(2), canon_val))
            elif m:
                out.append("A=" + m.group(1))
            else:
                out.append("A=" + v)
        elif k == "P":
            m = re.match(r"^(\d+):(.*)$", v, flags=re.S)
            if m and m.group(1) == "470":
                out.append("P=470")
            elif m:
                out.append("P=%s:%s" % (m.group(1), _canon_entries(m.group(2), canon_val)))
            else:
                out.append("P=" + v)
        elif k == "X":
            st = v.split(",")[0]
            out.append("X=" + {"470": "470", "closed": "closed", "204": "204", "200": "served", "207": "served", "500": "500"}.get(st, st))
        elif k == "E":
            evs = [_canon_entries(x, canon_val) for x in v.split(";") if x]
            out.append("E=" + ";".join(sorted(evs)))
        elif k == "cb":
            out.append("cb=" + _canon_entries(v, canon_val))
        elif k == "R":
            out.append("R=" + v)
        else:
            out.append(tok)
    return " ".join(out)


def canon_model(obs):
    out = []
    for tok in split_tokens(obs):
        k, _, v = tok.partition("=")
        if k in ("G", "A", "P"):
            m = re.match(r"^(\d+):(.*)$", v, flags=re.S)
            if m:
                out.append("%s=%s:%s" % (k, m.group(1), _canon_entries(m.group(2), canon_model_val)))
            else:
                out.append(tok)
        elif k == "E":
            evs = [_canon_entries(x, canon_model_val) for x in v.split(";") if x]
            out.append("E=" + ";".join(sorted(evs)))
        elif k == "cb":
            out.append("cb=" + _canon_entries(v, canon_model_val))
        else:
            out.append(tok)
    return " ".join(out)


def split_tokens(obs):
    """observations are space separated; JSON strings inside values never contain spaces in the scenarios"""
    return [t for t in obs.split(" ") if t]


def same(c, g, m):
    return canon_go(g) == canon_model(m)


def case(ops, cid_prefix="sk"):
    return "sk tbl=%s %s" % (table(), " ".join(ops))


def canary_leak(obs, verified_conns=None):
    """any canary flag in an observation token of an unverified connection"""
    return "canary=1" in obs
