"""C17 — struct TLV8 marshalling round-trips and matches the wire encoding; unmarshalling never panics."""
import json, os, re, struct, subprocess
from .. import core

ID = "C17"
FAMILY = "tstruct"
RULE = ("round trips: every RTP message type the library defines (descriptors read from the Go types by reflection and, "
        "independently, regenerated from rtp/*.go by the translator) and synthetic struct types built with reflect.StructOf "
        "covering every field kind (uint8/16/32/64, int16/32/64, float32, bool, string, bytes, nested structs to depth 3, tagged "
        "and inline lists), with values at the extremes of every kind (0, 1, max, min, -1, 2^31, 2^32, +-0, inf, quiet and "
        "signalling NaN, strings / byte strings of 0, 1, 254, 255, 256, 510, 511, 700 bytes, lists of 0-4 elements with elements "
        "above 255 bytes); decoder: arbitrary byte strings (random, truncated valid encodings, bit flips, length bytes beyond the "
        "input, nested truncation, delimiters, repeated tags) into every one of these types. non-trivial = a value with a field "
        "at an extreme / beyond one fragment / a list of >= 2 elements, or a decoder input that is not a valid encoding")
EXTRA_FILES = ("Proofs/TlvStructProofs.v", "Proofs/TlvRoundtrip.v", "Gen/RtpGen.v")
ASSUMPTIONS = [
    "an absent item and a zero-length item are the same value for a conformant peer (the library writes nothing for an empty string / byte string / nested struct)",
    "struct types are well formed: tags 1..255, distinct within a struct; the element tags of an inline list are disjoint from the tags of its sibling fields; inline list elements have scalar fields only (an inline list of elements with a nested struct makes the decoder loop forever when another field follows — see DESIGN.md)",
    "float32: a signalling NaN comes back quiet (float32 -> float64 -> float32 in reflect.Value.SetFloat); any NaN equals any NaN",
    "nil and empty slices / strings are the same value",
]
TRUSTED = ["reflect.StructOf builds the synthetic struct types; the Go driver prints values through reflection",
           "Python reference encoder (little-endian TLV8 with 255-byte fragments and 00 00 list delimiters) as implementation-side oracle"]

SCALARS = "BHWQhwqfbsy"
RANGE = {"B": (0, 2 ** 8 - 1), "H": (0, 2 ** 16 - 1), "W": (0, 2 ** 32 - 1), "Q": (0, 2 ** 64 - 1),
         "h": (-2 ** 15, 2 ** 15 - 1), "w": (-2 ** 31, 2 ** 31 - 1), "q": (-2 ** 63, 2 ** 63 - 1)}
WIDTH = {"B": 1, "H": 2, "W": 4, "Q": 8, "h": 2, "w": 4, "q": 8}

_rtp = None


def rtp_types():
    global _rtp
    if _rtp is None:
        out = subprocess.run([os.path.join(core.BUILD, "hcdrv"), "tstruct"], input=b"d desc\n", stdout=subprocess.PIPE, timeout=60).stdout.decode()
        _rtp = dict(t.split("=", 1) for t in out.strip().split(" ")[1:])
    return _rtp


# ---------------------------------------------------------------- types
def parse_fields(s, pos=0):
    """-> (list of (tag, kind, sub), newpos);  kind in scalars or S / L / I with sub = fields"""
    fs = []
    while True:
        m = re.compile(r"(\d+):(.)").match(s, pos)
        tag, k = int(m.group(1)), m.group(2)
        pos = m.end()
        sub = None
        if k in "SLI":
            sub, pos = parse_fields(s, pos + 1)
            pos += 1
        fs.append((tag, k, sub))
        if pos < len(s) and s[pos] == ",":
            pos += 1
            continue
        return fs, pos


def show_fields(fs):
    return ",".join("%d:%s%s" % (t, k, "(" + show_fields(sub) + ")" if sub is not None else "") for t, k, sub in fs)


def gen_fields(rng, depth, scalar_only=False, avoid=()):
    n = rng.randrange(1, 5 if depth else 4)
    tags = set(avoid)
    fs = []
    for _ in range(n):
        tag = rng.choice([1, 2, 3, 4, 5, 6, 7, 9, 10, 11, 12, 100, 254, 255])
        while tag in tags:
            tag = rng.randrange(1, 256)
        tags.add(tag)
        r = rng.random()
        if scalar_only or depth == 0 or r < 0.6:
            fs.append((tag, rng.choice(SCALARS), None))
        elif r < 0.75:
            fs.append((tag, "S", gen_fields(rng, depth - 1)))
        elif r < 0.9:
            fs.append((tag, "L", gen_fields(rng, depth - 1)))
        else:
            sub = gen_fields(rng, 0, scalar_only=True, avoid=tags)
            tags.update(t for t, _, _ in sub)
            fs.append((0, "I", sub))
    # sibling tags must also avoid the element tags of inline lists declared later
    return fs


def wf_fields(fs):
    tags = [t for t, k, _ in fs if k != "I"]
    itags = [t for _, k, sub in fs if k == "I" for t, _, _ in sub]
    alltags = tags + itags
    if len(set(alltags)) != len(alltags) or any(t < 1 or t > 255 for t in alltags):
        return False
    for _, k, sub in fs:
        if k == "I" and any(kk in "SLI" for _, kk, _ in sub):
            return False
        if k in "SL" and not wf_fields(sub):
            return False
    return True


# ---------------------------------------------------------------- values
def gen_scalar(rng, k, extreme):
    if k in RANGE:
        lo, hi = RANGE[k]
        if extreme:
            c = [lo, hi, 0, 1, hi - 1, lo + 1, -1, 255, 256, 2 ** 15, 2 ** 16, 2 ** 31, 2 ** 31 - 1, -2 ** 31, 2 ** 32, 2 ** 32 + 1, 2 ** 63, -2 ** 31 - 1, 2 ** 40]
            c = [x for x in c if lo <= x <= hi]
            return rng.choice(c)
        return rng.randrange(lo, hi + 1)
    if k == "f":
        if extreme:
            return rng.choice([0, 0x80000000, 0x3f800000, 0x7f800000, 0xff800000, 0x7fc00000, 0x7f800001, 0xffc12345, 0x7fa00000, 0x00000001, 0x7f7fffff, 0x3f9e0652])
        return rng.getrandbits(32)
    if k == "b":
        return rng.random() < 0.5
    n = rng.choice([0, 1, 2, 16, 254, 255, 256, 510, 511, 700]) if extreme else rng.choice([0, 1, 3, 8, 14, 16, 32])
    if k == "s":
        # Go strings are arbitrary bytes: NUL (also leading / trailing), invalid UTF-8, the delimiter bytes 00 00
        if rng.random() < 0.3:
            body = bytes(rng.choice([0, 0, 1, 0x7f, 0x80, 0xff, 0x41]) for _ in range(n))
            return body
        if n >= 2 and rng.random() < 0.3:
            return bytes(rng.choice(b"abcXYZ 09-_") for _ in range(n - 1)) + b"\x00"
        return bytes(rng.choice(b"abcXYZ 09-_") for _ in range(n))
    return bytes(rng.getrandbits(8) for _ in range(n))


def gen_vals(rng, fs, extreme_p=0.4, nonempty_elems=True, in_inline=False):
    out = []
    for tag, k, sub in fs:
        if k == "S":
            out.append(gen_vals(rng, sub, extreme_p))
        elif k == "L":
            n = rng.choice([0, 1, 2, 2, 3, 4])
            out.append([gen_vals(rng, sub, extreme_p) for _ in range(n)])
        elif k == "I":
            n = rng.choice([0, 1, 2, 2, 3, 4])
            out.append([gen_vals(rng, sub, extreme_p, in_inline=True) for _ in range(n)])
        else:
            v = gen_scalar(rng, k, rng.random() < extreme_p)
            if in_inline and k in "sy" and len(v) == 0:
                v = b"z"          # an omitted field inside an inline element is outside the theorem (see finding_class)
            out.append(v)
    if len(ref_vals(fs, out)) == 0:
        # a struct whose encoding is empty (only empty strings / lists): as a list element it would vanish
        for i, (_, k, _) in enumerate(fs):
            if k in "sy":
                out[i] = b"z"
                break
    return out


def gen_vals_any(rng, fs):
    """no constraint: runs into the documented decoder limitations on purpose"""
    out = []
    for tag, k, sub in fs:
        if k == "S":
            out.append(gen_vals_any(rng, sub))
        elif k in "LI":
            out.append([gen_vals_any(rng, sub) for _ in range(rng.choice([1, 2, 3]))])
        elif k in RANGE:
            out.append(rng.choice([0, 0, 1, 5]))
        elif k == "f":
            out.append(rng.choice([0, 0x80000000, 0x3f800000]))
        elif k == "b":
            out.append(rng.random() < 0.3)
        else:
            out.append(rng.choice([b"", b"", b"q"]))
    return out


def show_val(k, sub, v):
    if k == "S":
        return show_vals(sub, v)
    if k in "LI":
        return "[" + ";".join(show_vals(sub, e) for e in v) + "]"
    if k in "sy":
        return "h" + v.hex()
    if k == "b":
        return "1" if v else "0"
    if k == "f":
        return "x%08x" % v
    return str(v)


def show_vals(fs, vs):
    return "(" + ",".join(show_val(k, sub, v) for (_, k, sub), v in zip(fs, vs)) + ")"


def quiet(bits):
    e, frac = (bits >> 23) & 0xff, bits & 0x7fffff
    return bits | 0x400000 if e == 255 and frac != 0 else bits


def expect_vals(fs, vs):
    """the value a round trip must give back, as text (NaNs quiet)"""
    def ev(k, sub, v):
        if k == "S":
            return expect_vals(sub, v)
        if k in "LI":
            return "[" + ";".join(expect_vals(sub, e) for e in v) + "]"
        if k == "f":
            return "x%08x" % quiet(v)
        return show_val(k, sub, v)
    return "(" + ",".join(ev(k, sub, v) for (_, k, sub), v in zip(fs, vs)) + ")"


# ---------------------------------------------------------------- reference encoder (the peer's view)
def frag(tag, b):
    out = b""
    for i in range(0, len(b), 255):
        c = b[i:i + 255]
        out += bytes([tag, len(c)]) + c
    return out


def ref_vals(fs, vs):
    out = b""
    for (tag, k, sub), v in zip(fs, vs):
        if k in WIDTH:
            out += frag(tag, (v % (1 << (8 * WIDTH[k]))).to_bytes(WIDTH[k], "little"))
        elif k == "f":
            out += frag(tag, struct.pack("<I", v))
        elif k == "b":
            out += bytes([tag, 1, 1 if v else 0])
        elif k in "sy":
            out += frag(tag, v)
        elif k == "S":
            out += frag(tag, ref_vals(sub, v))
        elif k == "L":
            out += b"\x00\x00".join(frag(tag, ref_vals(sub, e)) for e in v)
        elif k == "I":
            out += b"\x00\x00".join(ref_vals(sub, e) for e in v)
    return out


# ---------------------------------------------------------------- value classes outside the round-trip theorem
def empty_scalar(k, v):
    if k in RANGE:
        return v == 0
    if k == "f":
        return v in (0, 0x80000000)
    if k == "b":
        return not v
    return len(v) == 0


def finding_class(fs, vs):
    """which documented decoder limitation a value runs into (None = inside the round-trip theorem)"""
    for (tag, k, sub), v in zip(fs, vs):
        if k == "S":
            c = finding_class(sub, v)
            if c:
                return c
        elif k == "L":
            for e in v:
                if len(ref_vals(sub, e)) == 0:
                    return "list-element-empty-encoding"
                c = finding_class(sub, e)
                if c:
                    return c
        elif k == "I":
            for e in v:
                if len(ref_vals(sub, e)) == 0:
                    return "list-element-empty-encoding"
            for j, (_, kk, _) in enumerate(sub):
                if kk in "sy":
                    col = [len(e[j]) == 0 for e in v]
                    if any(col[i] and not all(col[i:]) for i in range(len(col))):
                        return "inline-omitted-field"
    return None


def in_theorem(fs, vs):
    """the value class of C17_roundtrip (okvs in coq/Proofs/TlvRoundtrip.v)"""
    for (tag, k, sub), v in zip(fs, vs):
        if k == "S":
            if not in_theorem(sub, v):
                return False
        elif k == "L":
            for e in v:
                if len(ref_vals(sub, e)) == 0 or not in_theorem(sub, e):
                    return False
        elif k == "I":
            for e in v:
                if len(ref_vals(sub, e)) == 0 or any(kk in "sy" and len(x) == 0 for (_, kk, _), x in zip(sub, e)):
                    return False
    return True


# ---------------------------------------------------------------- generation
def mutate(rng, b):
    b = bytearray(b)
    r = rng.random()
    if not b:
        return bytes(rng.getrandbits(8) for _ in range(rng.randrange(0, 6)))
    if r < 0.3:
        return bytes(b[:rng.randrange(0, len(b))])
    if r < 0.5:
        i = rng.randrange(len(b))
        b[i] ^= 1 << rng.randrange(8)
    elif r < 0.65:
        i = rng.randrange(len(b))
        b[i] = rng.choice([0, 1, 2, 3, 4, 255, len(b) & 255])
    elif r < 0.8:
        i = rng.randrange(len(b) + 1)
        b[i:i] = rng.choice([b"\x00\x00", bytes([rng.randrange(1, 8), 0]), bytes([rng.randrange(1, 8), 1, rng.getrandbits(8)]), bytes([rng.randrange(1, 8), 3, 1, 2, 3])])
    else:
        i = rng.randrange(len(b))
        j = rng.randrange(i, len(b))
        b[i:i] = b[i:j]
    return bytes(b)


def gen(rng, tier):
    cases = []

    def add(kind, line, **kw):
        d = {"id": "%s%d" % (kind[:2], len(cases)), "line": line, "kind": kind}
        d.update(kw)
        cases.append(d)

    types = []
    for name, desc in sorted(rtp_types().items()):
        types.append(("rtp:%s=%s" % (name, desc), parse_fields(desc)[0], "rtp"))
    # one flat struct with every scalar kind, one per kind, and random shapes
    types.append((None, [(i + 1, k, None) for i, k in enumerate(SCALARS)], "allkinds"))
    for k in SCALARS:
        types.append((None, [(7, k, None)], "single"))
    nsyn = 40 if tier == "quick" else 1200
    while len([t for t in types if t[2] == "synthetic"]) < nsyn:
        fs = gen_fields(rng, 3)
        if wf_fields(fs):
            types.append((None, fs, "synthetic"))
    per = 6 if tier == "quick" else 40
    for name, fs, origin in types:
        desc = name or show_fields(fs)
        for i in range(per if origin != "single" else 12):
            vs = gen_vals(rng, fs, 0.5 if i % 2 else 0.15)
            add("rt/" + origin, "rt %s %s" % (desc, show_vals(fs, vs)), fs=fs, vs=vs)
            if i < (2 if tier == "quick" else 10):
                enc = ref_vals(fs, vs)
                for _ in range(3):
                    add("un/mutated/" + origin, "un %s %s" % (desc, mutate(rng, enc).hex() or "-"))
        if any(k in "LI" for _, k, _ in fs) or origin == "rtp":
            for i in range(3 if tier == "quick" else 20):
                vs = gen_vals_any(rng, fs)
                add("rt/unconstrained/" + origin, "rt %s %s" % (desc, show_vals(fs, vs)), fs=fs, vs=vs)
        for _ in range(3 if tier == "quick" else 30):
            n = rng.choice([0, 1, 2, 3, 5, 9, 30])
            raw = bytes(rng.choice([rng.getrandbits(8), rng.randrange(0, 8)]) for _ in range(n))
            add("un/random/" + origin, "un %s %s" % (desc, raw.hex() or "-"))
    # directed: every kind with an item shorter / longer than its width
    for k in SCALARS:
        for ln in range(0, 10):
            add("un/width", "un 7:%s %s" % (k, (bytes([7, ln]) + bytes(rng.getrandbits(8) for _ in range(ln))).hex()))
    return cases


def nontrivial(c):
    if c["kind"].startswith("un"):
        return True
    return bool(re.search(r"h[0-9a-f]{500}|;|x7f|x80|x00000001|-|[0-9]{9}", c["line"].split(" ")[2]))


def outcome_class(c, obs):
    k = c["kind"].split("/")[0]
    if k == "rt" and "fs" in c:
        return c["kind"] + ("/in-theorem-class" if in_theorem(c["fs"], c["vs"]) else "/outside-theorem-class")
    if k == "un":
        d = obs[4:]
        return c["kind"] + ("/err" if d == "err" else "/panic" if d == "panic" else "/value")
    return c["kind"]


def oracle(c, obs):
    if obs.startswith("harness-panic") or obs.startswith("DRIVER-DIED") or obs == "NO-OUTPUT":
        return "harness failure: " + obs[:120]
    if c["kind"].startswith("un"):
        if obs == "dec=panic":
            return "Unmarshal panicked on untrusted input"
        return None
    if "fs" not in c:      # replay: rebuild the structured value from the line
        t = c["line"].split(" ")
        desc = t[1].split("=", 1)[1] if t[1].startswith("rtp:") else t[1]
        c["fs"] = parse_fields(desc)[0]
        c["vs"] = parse_vals(c["fs"], t[2])
    fs, vs = c["fs"], c["vs"]
    if obs.endswith(" retained=changed"):
        return "the bytes returned by Marshal changed after the caller marshalled other values (the encoding of v is no longer what the caller holds)"
    m = re.match(r"enc=([0-9a-f]*) dec=(\S+)$", obs)
    if not m:
        return "Marshal failed: " + obs[:60]
    want = ref_vals(fs, vs).hex()
    if m.group(1) != want:
        return "Marshal produced %s..., a conformant peer expects %s... (first difference at byte %d)" % (
            m.group(1)[:60], want[:60], next((i // 2 for i in range(0, min(len(want), len(m.group(1))), 2) if want[i:i + 2] != m.group(1)[i:i + 2]), min(len(want), len(m.group(1))) // 2))
    if m.group(2) == "panic":
        return "Unmarshal panicked on the library's own encoding"
    exp = expect_vals(fs, vs)
    if m.group(2) != exp:
        return "Unmarshal(Marshal(v)) = %s differs from v = %s" % (m.group(2)[:160], exp[:160])
    return None


def parse_vals(fs, s):
    pos = [0]

    def hexrun():
        m = re.compile(r"[0-9a-f]*").match(s, pos[0])
        pos[0] = m.end()
        return m.group(0)

    def val(k, sub):
        if k == "S":
            return strct(sub)
        if k in "LI":
            pos[0] += 1
            out = []
            while s[pos[0]] != "]":
                if s[pos[0]] == ";":
                    pos[0] += 1
                out.append(strct(sub))
            pos[0] += 1
            return out
        if k in "sy":
            pos[0] += 1
            return bytes.fromhex(hexrun())
        if k == "b":
            pos[0] += 1
            return s[pos[0] - 1] == "1"
        if k == "f":
            pos[0] += 1
            return int(hexrun()[:8], 16)
        m = re.compile(r"-?\d+").match(s, pos[0])
        pos[0] = m.end()
        return int(m.group(0))

    def strct(fs):
        pos[0] += 1
        out = []
        for i, (_, k, sub) in enumerate(fs):
            if i:
                pos[0] += 1
            out.append(val(k, sub))
        pos[0] += 1
        return out
    return strct(fs)


def classify(c, obs, why):
    if c["kind"].startswith("rt") and why.startswith("Unmarshal(Marshal(v))"):
        k = finding_class(c["fs"], c["vs"])
        return ("C17:" + k) if k else None
    return None


def run(res, a):
    import sys
    res.rule = RULE
    res.assumptions = ASSUMPTIONS
    core.build_everything(res, ID, extra_files=EXTRA_FILES)
    res.trusted += TRUSTED
    mod = sys.modules[__name__]
    # tie of the regenerated RTP descriptors (translator, from the source text) to the types the compiled code has
    gen_path = os.path.join(core.BUILD, "gen", "rtp_desc.txt")
    static = dict(l.split("=", 1) for l in open(gen_path).read().split()) if os.path.exists(gen_path) else {}
    runtime = rtp_types()
    diff = sorted(n for n in set(static) | set(runtime) if static.get(n) != runtime.get(n))
    res.obligations.append(("RTP struct descriptors regenerated from rtp/*.go equal the compiled types (reflection)", not diff,
                            "%d types; differing: %s" % (len(runtime), ", ".join(diff) or "none")))
    if diff:
        res.broken.append("RTP struct descriptors differ between translator and reflection: " + ", ".join(diff))
    if a.replay:
        rep = json.load(open(a.replay))
        cases = [{"id": "replay", "line": rep["case"], "kind": rep["case"].split(" ")[0] + "/replay"}]
    else:
        cases = core.load_corpus(FAMILY) + gen(core.rng_for(ID, res.seed), a.tier)
    core.run_correspondence(res, FAMILY, cases, mod)
