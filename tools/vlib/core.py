"""Orchestrator shared by all property checks: build, generate, run, diff, triage, evidence.
See DESIGN.md section 2.4."""
import fcntl, hashlib, json, os, random, re, shutil, subprocess, sys, tempfile, time
from concurrent.futures import ThreadPoolExecutor

VERIF = os.path.dirname(os.path.dirname(os.path.dirname(os.path.abspath(__file__))))
REPO = os.environ.get("VERIF_REPO", "/repo")
COQ = os.path.join(VERIF, "coq")
BUILD = os.path.join(VERIF, "build")
HARNESS = os.path.join(VERIF, "harness")
NCPU = os.cpu_count() or 4

GOENV = dict(os.environ, GOFLAGS="-mod=mod", GOPROXY="off", GOSUMDB="off", GOTOOLCHAIN="local",
             CGO_ENABLED="0")

FORBIDDEN = re.compile(r"\b(Admitted|admit|Axiom|Axioms|Parameter|Parameters|Conjecture|Conjectures|"
                       r"Unset\s+Guard|bypass_check|Admit\s+Obligations|type-in-type|"
                       r"impredicative-set|Unset\s+Universe\s+Checking|Unset\s+Positivity)\b")


class BuildError(Exception):
    pass


def sh(cmd, cwd=None, env=None, timeout=1800, check=True, inp=None):
    p = subprocess.run(cmd, cwd=cwd, env=env, shell=isinstance(cmd, str), stdout=subprocess.PIPE,
                       stderr=subprocess.STDOUT, timeout=timeout, input=inp)
    out = p.stdout.decode("utf-8", "replace")
    if check and p.returncode != 0:
        raise BuildError("command failed (%s): %s\n%s" % (p.returncode, cmd, out[-4000:]))
    return p.returncode, out


class Lock:
    def __enter__(self):
        os.makedirs(BUILD, exist_ok=True)
        self.f = open(os.path.join(BUILD, ".lock"), "w")
        fcntl.flock(self.f, fcntl.LOCK_EX)
        return self

    def __exit__(self, *a):
        fcntl.flock(self.f, fcntl.LOCK_UN)
        self.f.close()


def coq_sources():
    res = []
    for d, _, fs in os.walk(COQ):
        for f in fs:
            if f.endswith(".v"):
                res.append(os.path.join(d, f))
    return sorted(res)


def scan_forbidden():
    """grep the development for anything that would weaken the kernel's guarantee"""
    hits = []
    for p in coq_sources():
        txt = open(p).read()
        txt = re.sub(r"\(\*.*?\*\)", "", txt, flags=re.S)
        for m in FORBIDDEN.finditer(txt):
            hits.append("%s: %s" % (os.path.relpath(p, VERIF), m.group(0)))
    return hits


def write_if_changed(path, content):
    if os.path.exists(path) and open(path).read() == content:
        return False
    os.makedirs(os.path.dirname(path), exist_ok=True)
    with open(path, "w") as f:
        f.write(content)
    return True


def run_translator():
    """T1: regenerate coq/Gen/*.v from /repo's working tree. Returns list of translator complaints."""
    tdir = os.path.join(VERIF, "tools", "translate")
    if not os.path.isdir(tdir):
        return []
    exe = os.path.join(BUILD, "translate")
    sh(["go", "build", "-o", exe, "."], cwd=tdir, env=GOENV, timeout=600)
    out_dir = os.path.join(BUILD, "gen")
    shutil.rmtree(out_dir, ignore_errors=True)
    os.makedirs(out_dir)
    rc, out = sh([exe, "-repo", REPO, "-out", out_dir], timeout=300, check=False)
    complaints = [l for l in out.splitlines() if l.startswith("TRANSLATOR:")]
    if rc != 0:
        complaints.append("TRANSLATOR: exit status %d: %s" % (rc, out[-500:]))
    for f in sorted(os.listdir(out_dir)):
        if f.endswith(".v"):
            write_if_changed(os.path.join(COQ, "Gen", f), open(os.path.join(out_dir, f)).read())
    reg = os.path.join(out_dir, "catalog_registry.go.txt")
    if os.path.exists(reg):
        write_if_changed(os.path.join(HARNESS, "cmd", "hcdrv", "catalog_registry_gen.go"), open(reg).read())
    return complaints


def coq_make(keep_going=True):
    if not os.path.exists(os.path.join(COQ, "Makefile")) or \
            os.path.getmtime(os.path.join(COQ, "Makefile")) < os.path.getmtime(os.path.join(COQ, "_CoqProject")):
        sh("coq_makefile -f _CoqProject -o Makefile", cwd=COQ)
    rc, out = sh("make -j%d %s" % (NCPU, "-k" if keep_going else ""), cwd=COQ, timeout=3000, check=False)
    return rc, out


def vo_ok(rel):
    v = os.path.join(COQ, rel)
    vo = v[:-2] + ".vo"
    return os.path.exists(vo) and os.path.getmtime(vo) >= os.path.getmtime(v)


def build_modelrun():
    """extract the models (ExtrOcamlBasic only) and link them with the hand-written driver"""
    exe = os.path.join(BUILD, "modelrun")
    srcs = [os.path.join(COQ, "Extract", "Extract.v")] + \
           [os.path.join(VERIF, "ocaml", f) for f in os.listdir(os.path.join(VERIF, "ocaml"))]
    for d in ("Base", "Model", "Gen"):
        dd = os.path.join(COQ, d)
        if os.path.isdir(dd):
            srcs += [os.path.join(dd, f) for f in os.listdir(dd) if f.endswith(".v")]
    if os.path.exists(exe) and all(os.path.getmtime(s) <= os.path.getmtime(exe) for s in srcs):
        return
    ex = os.path.join(BUILD, "extract")
    shutil.rmtree(ex, ignore_errors=True)
    os.makedirs(ex)
    sh(["coqc", "-Q", COQ, "HC", os.path.join(COQ, "Extract", "Extract.v")], cwd=ex, timeout=900)
    tmp = exe + ".new"
    sh([os.path.join(VERIF, "ocaml", "build.sh"), ex, tmp], timeout=900)
    os.replace(tmp, exe)


def build_harness():
    """compile the Go drivers against /repo's *current working tree* with the verif tag"""
    shutil.copy(os.path.join(REPO, "go.sum"), os.path.join(HARNESS, "go.sum"))
    exe = os.path.join(BUILD, "hcdrv")
    sh(["go", "build", "-tags", "verif", "-o", exe, "./cmd/hcdrv"], cwd=HARNESS, env=GOENV, timeout=900)
    return exe


def property_assumptions(pid):
    """recompile Properties/<pid>.v on its own and return (ok, theorems, assumptions-text, cmd)"""
    rel = "Properties/%s.v" % pid
    cmd = "cd coq && coqc -Q . HC %s" % rel
    rc, out = sh(["coqc", "-Q", ".", "HC", rel], cwd=COQ, timeout=1200, check=False)
    src = open(os.path.join(COQ, rel)).read()
    thms = re.findall(r"^(?:Theorem|Corollary|Example|Lemma)\s+(\w+)", src, flags=re.M)
    blocks = []
    cur = None
    for line in out.splitlines():
        if line.startswith("Closed under the global context"):
            blocks.append("Closed under the global context")
            cur = None
        elif line.startswith("Axioms:"):
            cur = [line]
            blocks.append(cur)
        elif cur is not None:
            cur.append(line)
    blocks = ["\n".join(b) if isinstance(b, list) else b for b in blocks]
    printed = re.findall(r"^Print Assumptions\s+(\w+)\s*\.", src, flags=re.M)
    by_name = dict(zip(printed, blocks))
    return rc == 0, thms, by_name, cmd, out


def shard_run(exe, family, lines, timeout=3000, env=None, group=None, shards_out=None):
    """run `exe family` over the case lines in parallel shards; returns {id: observation}.
    group(line) -> key keeps lines with one key in one shard (lets a driver cache per-key work)"""
    if not lines:
        return {}
    n = max(1, min(NCPU, len(lines) // 8 + 1))
    if group:
        shards = [[] for _ in range(n)]
        keys = {}
        for l in lines:
            k = group(l)
            if k not in keys:
                keys[k] = min(range(n), key=lambda i: len(shards[i]))
            shards[keys[k]].append(l)
        shards = [s for s in shards if s]
        n = len(shards)
    else:
        shards = [lines[i::n] for i in range(n)]

    def one(sh_lines):
        p = subprocess.run([exe, family], input=("\n".join(sh_lines) + "\n").encode(),
                           stdout=subprocess.PIPE, stderr=subprocess.PIPE, timeout=timeout, env=env)
        return p.returncode, p.stdout.decode("utf-8", "replace"), p.stderr.decode("utf-8", "replace")

    res = {}
    if shards_out is not None:
        shards_out.extend(shards)
    with ThreadPoolExecutor(max_workers=n) as ex:
        for (rc, out, err), sl in zip(ex.map(one, shards), shards):
            for l in out.splitlines():
                i = l.find(" ")
                if i < 0:
                    res[l] = ""
                else:
                    res[l[:i]] = l[i + 1:]
            if rc != 0:
                # the driver died (crash outside recover): attribute to the first case without output
                for l in sl:
                    cid = l.split(" ", 1)[0]
                    if cid not in res:
                        res[cid] = "DRIVER-DIED rc=%d %s" % (rc, err.strip().splitlines()[-1][:200] if err.strip() else "")
                        break
    return res


def sha(s):
    return hashlib.sha256(s.encode()).hexdigest()[:16]


def load_known():
    p = os.path.join(VERIF, "known_findings.json")
    if not os.path.exists(p):
        return []
    return json.load(open(p)).get("findings", [])


class Result:
    """accumulates what a check did; turned into the evidence file and the exit status"""

    def __init__(self, pid, tier, seed):
        self.pid, self.tier, self.seed = pid, tier, seed
        self.t0 = time.time()
        self.obligations = []      # (name, discharged: bool, detail)
        self.cases = 0
        self.distinct = set()
        self.nontrivial = set()
        self.samples = []
        self.hist = {}
        self.violations = []       # (kind, replay-dict)
        self.known_hits = {}
        self.broken = []           # names of theorems / correspondences that no longer check
        self.axioms = []
        self.extra = {}
        self.rule = ""
        self.checker_cmd = ""
        self.trusted = []
        self.assumptions = []

    def count(self, key, k=1):
        self.hist[key] = self.hist.get(key, 0) + k


def finish(res, level="proof"):
    """write evidence, print VIOLATION / KNOWN-FINDING lines, return exit status"""
    os.makedirs(os.path.join(VERIF, "evidence"), exist_ok=True)
    os.makedirs(os.path.join(VERIF, "replays"), exist_ok=True)
    for f in os.listdir(os.path.join(VERIF, "replays")):
        if f.startswith(res.pid + "-"):
            os.remove(os.path.join(VERIF, "replays", f))
    status = 0
    for key, what in sorted(res.known_hits.items()):
        print("KNOWN-FINDING: property=%s %s" % (res.pid, what))
    # one VIOLATION line per distinct kind (first replay of each)
    seen = set()
    for kind, rep in res.violations:
        if kind in seen:
            continue
        seen.add(kind)
        path = os.path.join(VERIF, "replays", "%s-%s-%s.json" % (res.pid, re.sub(r"[^A-Za-z0-9_.-]", "_", kind)[:60], sha(json.dumps(rep, sort_keys=True))))
        with open(path, "w") as f:
            json.dump(rep, f, indent=1, sort_keys=True)
        suffix = "" if rep.get("failing_input_found", True) else " no-failing-input-found"
        print("VIOLATION property=%s replay=%s%s" % (res.pid, path, suffix))
        status = 1
    n_obl = len(res.obligations)
    n_dis = sum(1 for o in res.obligations if o[1])
    ev = {
        "property_id": res.pid, "tier": res.tier, "seed": res.seed, "level": level,
        "coverage": {
            "obligations": n_obl, "discharged": n_dis,
            "obligation_list": [{"name": o[0], "discharged": o[1], "detail": o[2]} for o in res.obligations],
            "checker_cmd": res.checker_cmd,
            "trusted_base": res.trusted,
            "print_assumptions": res.axioms,
            "evaluations": res.cases,
            "distinct_nontrivial": len(res.nontrivial),
            "distinct": len(res.distinct),
            "rule": res.rule,
            "samples": res.samples[:8],
            "distribution": dict(sorted(res.hist.items())),
            "traces_validated_against_impl": res.cases,
            "disagreements_checked": res.extra.get("disagreements", 0),
            "known_findings_hit": sorted(res.known_hits),
            "broken": res.broken,
        },
        "assumptions": res.assumptions,
        "wall_s": round(time.time() - res.t0, 2),
        "violations": len(seen),
    }
    for k, v in res.extra.items():
        ev["coverage"].setdefault(k, v)
    with open(os.path.join(VERIF, "evidence", "%s.json" % res.pid), "w") as f:
        json.dump(ev, f, indent=1)
    print("%s tier=%s seed=%d obligations=%d/%d cases=%d nontrivial=%d violations=%d known=%d wall=%.1fs" % (
        res.pid, res.tier, res.seed, n_dis, n_obl, res.cases, len(res.nontrivial), len(seen),
        len(res.known_hits), time.time() - res.t0))
    return status


TRUSTED_COMMON = [
    "Coq 8.16.1 kernel (coqc; vm_compute used in Example/finite-sweep proofs; no native_compute)",
    "Print Assumptions output recorded per theorem in print_assumptions",
    "extraction: ExtrOcamlBasic only (Extract Inductive bool/option/unit/list/prod/sumbool/sumor), no Extract Constant; OCaml 4.13.1; hand-written driver /verif/ocaml",
    "Go harness /verif/harness compiled against /repo working tree with -tags verif; Python generators and oracles in /verif/tools",
]


def build_everything(res, pid, need_go=True, extra_files=()):
    """stage 1. Returns True when the proof side is intact."""
    with Lock():
        complaints = run_translator()
        for c in complaints:
            res.broken.append(c)
        hits = scan_forbidden()
        res.obligations.append(("no Admitted/admit/Axiom/Parameter/Conjecture/guard-off in coq/", not hits, "; ".join(hits)))
        if hits:
            res.broken.append("forbidden constructs: " + "; ".join(hits))
        rc, out = coq_make()
        ok, thms, blocks, cmd, pout = property_assumptions(pid)
        res.checker_cmd = "make -C coq -j%d (full .vo build) && %s" % (NCPU, cmd)
        if not ok:
            m = re.findall(r'File "([^"]+)", line (\d+).*?\n(Error:.*?)(?:\n\n|\Z)', out + "\n" + pout, flags=re.S)
            detail = "; ".join("%s:%s %s" % (a, b, c.replace("\n", " ")[:300]) for a, b, c in m[:3]) or pout[-600:]
            res.broken.append("Properties/%s.v does not compile: %s" % (pid, detail))
        for i, t in enumerate(thms):
            ax = blocks.get(t, "(no Print Assumptions for this statement; proof is `exact` of a lemma checked by the same build)" if ok else "not checked")
            res.obligations.append((t, ok, ax))
            res.axioms.append({"theorem": t, "assumptions": ax})
        if ok and res.tier == "thorough" and os.environ.get("VERIF_NO_COQCHK") != "1":
            # independent re-check of the compiled property file and everything it depends on
            rc2, out2 = sh(["coqchk", "-silent", "-o", "-Q", ".", "HC", "HC.Properties.%s" % pid], cwd=COQ, timeout=5400, check=False)
            m = re.search(r"\* Axioms:\s*(.*?)\n\s*\n", out2, flags=re.S)
            ax = re.sub(r"\s+", " ", m.group(1)).strip() if m else "?"
            clean = rc2 == 0 and ax == "<none>" and all(("* %s: <none>" % k) in re.sub(r"\s+", " ", out2) for k in
                                                        ("Constants/Inductives relying on type-in-type", "Constants/Inductives relying on unsafe (co)fixpoints", "Inductives whose positivity is assumed"))
            res.obligations.append(("coqchk -o HC.Properties.%s" % pid, clean, "axioms: %s" % ax))
            res.checker_cmd += " && coqchk -silent -o -Q . HC HC.Properties.%s" % pid
            if not clean:
                res.broken.append("coqchk does not accept HC.Properties.%s or reports axioms: %s" % (pid, out2[-400:]))
        for rel in extra_files:
            good = vo_ok(rel)
            res.obligations.append((rel, good, "compiled" if good else "does not compile"))
            if not good:
                res.broken.append(rel + " does not compile")
        model_ok = True
        try:
            build_modelrun()
        except BuildError as e:
            model_ok = False
            res.broken.append("model extraction/build failed: " + str(e)[-600:])
        if need_go:
            build_harness()   # a Go compile error is an error of the tree under test: let it propagate
    res.trusted = list(TRUSTED_COMMON)
    return ok and not complaints and not hits, model_ok


def run_correspondence(res, family, cases, prop, corr_name=None):
    """stages 2-4 for one family.
    cases: list of dicts {id, line, meta}; prop: module with oracle(case, obs), nontrivial(case),
    classify(case, obs, why) -> known-finding key or None."""
    corr_name = corr_name or ("correspondence model<->code, family " + family)
    # case ids key the observations: make them unique (two generator batches may number from 0 again)
    seen_ids = set()
    for k, c in enumerate(cases):
        if c["id"] in seen_ids:
            c["id"] = "%s_%d" % (c["id"], k)
        seen_ids.add(c["id"])
    lines = ["%s %s" % (c["id"], c["line"]) for c in cases]
    grp = getattr(prop, "shard_group", None)
    go_shards = []
    go = shard_run(os.path.join(BUILD, "hcdrv"), family, lines, shards_out=go_shards)
    mo = shard_run(os.path.join(BUILD, "modelrun"), family, lines, group=grp)
    known = {k["key"]: k for k in load_known() if k.get("property") == res.pid and k.get("state") == "known"}
    # Full-stack runs go over real sockets with deadlines: a case that fails is run again (alone, twice); only a
    # failure that repeats counts. Intermittent failures are recorded in the evidence (flaky_cases).
    retry = getattr(prop, "RETRY", 0)
    if retry:
        def bad(c):
            g, m = go.get(c["id"], "NO-OUTPUT"), mo.get(c["id"], "NO-OUTPUT")
            agree = prop.same(c, g, m) if hasattr(prop, "same") else (g == m)
            return (not agree) or bool(prop.oracle(c, g))
        suspects = [c for c in cases if bad(c) and not c.get("noretry")]
        flaky = 0
        # A suspect is re-run IN THE CONTEXT IT FAILED IN: the whole shard (one driver process, same order) is run
        # again, so that a failure caused by state left behind by an earlier case of the same process repeats.
        # It counts as intermittent only if it passes in that context.
        for c in suspects[:40]:
            ctx = next((sl for sl in go_shards if any(l.split(" ", 1)[0] == c["id"] for l in sl)), ["%s %s" % (c["id"], c["line"])])
            k = next(i for i, l in enumerate(ctx) if l.split(" ", 1)[0] == c["id"])
            ctx = ctx[:k + 1]
            for _ in range(retry):
                again = shard_run(os.path.join(BUILD, "hcdrv"), family, ["R%d_%s" % (j, l) for j, l in enumerate(ctx)], group=lambda l: "one-process")
                old = go.get(c["id"], "NO-OUTPUT")       # no output at all: the driver process died before this case
                go[c["id"]] = again.get("R%d_%s" % (k, c["id"]), "NO-OUTPUT")
                if k > 0:
                    c["context"] = [l.split(" ", 1)[1] for l in ctx[:k]]
                if not bad(c):
                    flaky += 1
                    res.extra.setdefault("flaky_cases", []).append({"case": c["line"][-400:], "first_observation": old[:300]})
                    break
        res.extra["flaky"] = res.extra.get("flaky", 0) + flaky
    disagreements = 0
    first_dis = None
    for c in cases:
        cid = c["id"]
        g, m = go.get(cid, "NO-OUTPUT"), mo.get(cid, "NO-OUTPUT")
        res.cases += 1
        h = sha(c["line"])
        res.distinct.add(h)
        if prop.nontrivial(c):
            res.nontrivial.add(h)
        res.count("kind:" + c.get("kind", "?"))
        cls = prop.outcome_class(c, g) if hasattr(prop, "outcome_class") else g.split(" ", 1)[0][:24]
        res.count("outcome:" + cls)
        if len(res.samples) < 8 and (res.cases % max(1, len(cases) // 8) == 0):
            res.samples.append({"case": c["line"][:300], "impl": g[:300], "model": m[:300]})
        why = prop.oracle(c, g)
        agree = prop.same(c, g, m) if hasattr(prop, "same") else (g == m)
        if not agree:
            disagreements += 1
            if first_dis is None:
                first_dis = {"case": c["line"], "impl": g, "model": m}
        if why:
            key = prop.classify(c, g, why) if hasattr(prop, "classify") else None
            if key and key in known:
                res.known_hits[key] = known[key]["what"]
            else:
                res.violations.append((key or "oracle", {
                    "property": res.pid, "family": family, "seed": res.seed, "case": c["line"],
                    "implementation_observed": g, "model_predicted": m, "required": why,
                    "meta": c.get("meta"), "stream": c.get("stream"),
                    "context_cases_run_before_in_the_same_driver_process": c.get("context"),
                    "failing_input_found": True,
                    "replay": "python3 tools/check.py %s --replay <this file>" % res.pid}))
    res.extra["disagreements"] = res.extra.get("disagreements", 0) + disagreements
    res.obligations.append((corr_name, disagreements == 0,
                            "%d cases, %d disagreements" % (len(cases), disagreements)))
    if disagreements:
        res.broken.append("%s: %d disagreements, first: %s" % (corr_name, disagreements, json.dumps(first_dis)[:1500]))
    if not res.samples and cases:
        c = cases[0]
        res.samples.append({"case": c["line"][:300], "impl": go.get(c["id"], "")[:300], "model": mo.get(c["id"], "")[:300]})
    return go, mo


def report_broken_without_input(res):
    """section 4 step 3: something no longer checks but no failing input was found"""
    if res.broken and not any(v[1].get("failing_input_found", True) for v in res.violations):
        res.violations.append(("unchecked", {
            "property": res.pid, "seed": res.seed, "failing_input_found": False,
            "no_longer_checks": res.broken,
            "searched": "corpus, _refuted witnesses and %d generated cases through the implementation-side oracle" % res.cases}))


def rng_for(pid, seed):
    return random.Random("%s-%d" % (pid, seed))


def load_corpus(family):
    d = os.path.join(VERIF, "corpus", family)
    out = []
    if os.path.isdir(d):
        for f in sorted(os.listdir(d)):
            for i, l in enumerate(open(os.path.join(d, f)).read().splitlines()):
                l = l.strip()
                if l and not l.startswith("#"):
                    out.append({"id": "corpus-%s-%d" % (f, i), "line": l, "kind": "corpus"})
    return out
