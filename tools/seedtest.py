#!/usr/bin/env python3
"""seedtest.py <seed-out-dir> [1|2] [--checks C05,C06] [--as N]
Confirms a seeded defect in a scratch worktree (builds, existing tests pass, demo fails with / passes without),
stores it under /verif/seeded/<id>-<n>/, then applies it to /repo, runs the property's quick check, and reverts."""
import json, os, re, shutil, subprocess, sys, time
V = os.path.dirname(os.path.dirname(os.path.abspath(__file__)))
ENV = dict(os.environ, GOFLAGS="-mod=mod", GOPROXY="off", GOSUMDB="off", GOTOOLCHAIN="local")


def sh(cmd, cwd=None, timeout=1800):
    p = subprocess.run(cmd, shell=True, cwd=cwd, env=ENV, stdout=subprocess.PIPE, stderr=subprocess.STDOUT, timeout=timeout)
    return p.returncode, p.stdout.decode("utf-8", "replace")


def main():
    out = sys.argv[1].rstrip("/")
    n = sys.argv[2] if len(sys.argv) > 2 and sys.argv[2] in ("1", "2") else "1"
    sfx = "" if n == "1" else "2"
    meta = json.load(open("%s/meta%s.json" % (out, sfx)))
    pid = meta["property"]
    checks = [pid]
    store_as = n
    for i, a in enumerate(sys.argv):
        if a == "--checks":
            checks = sys.argv[i + 1].split(",")
        if a == "--as":
            store_as = sys.argv[i + 1]
    patch = "%s/patch%s.diff" % (out, sfx)
    demo = "%s/demo%s" % (out, sfx)
    cmd = meta["demo_cmd"]
    m = re.search(r"cp\s+((?:\S+\s+)+?)(\S+)\s*(?:&&|;|$)", cmd)
    srcs, dst = m.group(1).split(), m.group(2).replace("<repo>/", "")
    srcfs = [os.path.join(out, x) if not os.path.isabs(x) else x for x in srcs]
    if len(srcs) > 1 or dst in ("", ".", "./") or dst.endswith("/"):
        dsts = [os.path.join(dst, os.path.basename(x)) for x in srcs]
    else:
        dsts = [dst]
    gt = cmd[cmd.index("go test"):]
    wt = "/tmp/seedcheck-%s-%s" % (pid, n)
    sh("git -C /repo worktree remove --force %s" % wt)
    rc, o = sh("git -C /repo worktree add --detach %s HEAD" % wt)
    assert rc == 0, o
    result = {"property": pid, "n": n}
    try:
        for a, b in zip(srcfs, dsts):
            shutil.copy(a, os.path.join(wt, b))
        rc, o = sh(gt, cwd=wt)
        result["demo_passes_without_patch"] = rc == 0
        rc, o = sh("git apply %s" % patch, cwd=wt)
        assert rc == 0, "patch does not apply: " + o
        rc, o = sh("go build ./...", cwd=wt)
        result["builds"] = rc == 0
        rc, o = sh(gt, cwd=wt)
        result["demo_fails_with_patch"] = rc != 0
        for b in dsts:
            os.remove(os.path.join(wt, b))
        rc, o = sh("go test -vet=off -count=1 ./...", cwd=wt)
        result["existing_tests_pass"] = rc == 0
        if rc != 0:
            result["existing_tests_output"] = o[-800:]
    finally:
        sh("git -C /repo worktree remove --force %s" % wt)
    confirmed = all(result.get(k) for k in ("demo_passes_without_patch", "builds", "demo_fails_with_patch", "existing_tests_pass"))
    result["confirmed"] = confirmed
    print(json.dumps(result))
    if not confirmed:
        return 1
    # run my checks against it (or leave that to tools/seedpar.py, which works on isolated copies)
    store_only = "--store-only" in sys.argv
    det = {}
    if not store_only:
        rc, o = sh("git -C /repo status --porcelain")
        assert o.strip() == "", "/repo is not clean: " + o
        rc, o = sh("git -C /repo apply %s" % patch)
        assert rc == 0, o
    try:
        for c in ([] if store_only else checks):
            t0 = time.time()
            rc, o = sh("python3 tools/check.py %s --tier quick" % c, cwd=V, timeout=3600)
            lines = [l for l in o.splitlines() if l.startswith("VIOLATION") or l.startswith("KNOWN-FINDING")]
            rep = None
            for l in lines:
                mm = re.search(r"replay=(\S+)", l)
                if mm and os.path.exists(mm.group(1)):
                    rep = json.load(open(mm.group(1)))
                    break
            det[c] = {"exit": rc, "lines": lines, "wall_s": round(time.time() - t0, 1),
                      "replay_required": (rep or {}).get("required") or (rep or {}).get("no_longer_checks"),
                      "replay_case": ((rep or {}).get("case") or "")[:300]}
            print(c, "exit", rc, lines[:2], det[c]["replay_required"])
    finally:
        if not store_only:
            sh("git -C /repo checkout -- . && git -C /repo clean -fdq")
    # store
    dest = os.path.join(V, "seeded", "%s-%s" % (pid, store_as))
    shutil.rmtree(dest, ignore_errors=True)
    os.makedirs(dest)
    shutil.copy(patch, os.path.join(dest, "patch.diff"))
    shutil.copytree(demo, os.path.join(dest, "demo"))
    meta["confirmed_by_me"] = result
    meta["what_i_ran"] = ["scratch worktree: copy demo, %s (passes); git apply patch; go build ./...; demo (fails); go test -vet=off -count=1 ./... (passes)" % gt,
                          "git -C /repo apply patch; " + "; ".join("python3 tools/check.py %s --tier quick" % c for c in checks) + "; git -C /repo checkout -- ."]
    meta["detected_by"] = det
    json.dump(meta, open(os.path.join(dest, "meta.json"), "w"), indent=1)
    return 0


if __name__ == "__main__":
    sys.exit(main())
