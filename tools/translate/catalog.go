package main

import (
	"encoding/json"
	"fmt"
	"go/ast"
	"go/parser"
	"go/token"
	"io/ioutil"
	"math"
	"os"
	"path/filepath"
	"sort"
	"strconv"
	"strings"
)

func init() { extraFiles = append(extraFiles, genCatalog) }

type numLit struct {
	set   bool
	text  string // canonical decimal text
	micro int64  // value * 10^6, rounded
	isInt bool   // written as an integer literal in the Go source
}

func (n numLit) coq() string {
	if !n.set {
		return "None"
	}
	return fmt.Sprintf("(Some (%s, (%d)%%Z, %v))", coqBytes(n.text), n.micro, n.isInt)
}

func numOf(f float64, isInt bool) numLit {
	return numLit{true, strconv.FormatFloat(f, 'g', -1, 64), int64(math.Round(f * 1e6)), isInt}
}

func numFromExpr(e ast.Expr) (numLit, bool) {
	neg := false
	if u, ok := e.(*ast.UnaryExpr); ok && u.Op == token.SUB {
		neg = true
		e = u.X
	}
	bl, ok := e.(*ast.BasicLit)
	if !ok || (bl.Kind != token.INT && bl.Kind != token.FLOAT) {
		return numLit{}, false
	}
	f, err := strconv.ParseFloat(bl.Value, 64)
	if err != nil {
		return numLit{}, false
	}
	if neg {
		f = -f
	}
	return numOf(f, bl.Kind == token.INT), true
}

type charCtor struct {
	name, file                             string
	embedded                               string // Int Float String Bool Bytes
	typeIdent, typeValue                   string // identifier passed to the embedded constructor and its value
	declIdent, declValue                   string // Type<Name> declared for this constructor and its value
	format                                 string
	perms                                  []string
	min, max, step, def                    numLit
	defKind                                string // "", num, bool, string
	defBool                                bool
	unit                                   string
	updSame                                bool
}

type svcCtor struct {
	name, file           string
	typeIdent, typeValue string
	hasBase              bool
	baseCtor             string // for services embedding another service (NewHeaterCooler)
	chars                []string
}

func parseDir(rel string) (map[string]*ast.File, map[string]string) {
	files := map[string]*ast.File{}
	consts := map[string]string{}
	dir := filepath.Join(*repo, rel)
	entries, err := ioutil.ReadDir(dir)
	if err != nil {
		complain("cannot read %s: %v", rel, err)
		return files, consts
	}
	for _, e := range entries {
		if e.IsDir() || !strings.HasSuffix(e.Name(), ".go") || strings.HasSuffix(e.Name(), "_test.go") {
			continue
		}
		f, err := parser.ParseFile(fset, filepath.Join(dir, e.Name()), nil, 0)
		if err != nil {
			complain("cannot parse %s/%s: %v", rel, e.Name(), err)
			continue
		}
		files[e.Name()] = f
		for _, d := range f.Decls {
			gd, ok := d.(*ast.GenDecl)
			if !ok || gd.Tok != token.CONST {
				continue
			}
			for _, sp := range gd.Specs {
				vs := sp.(*ast.ValueSpec)
				for i, n := range vs.Names {
					if i < len(vs.Values) {
						if s, ok := stringLit(vs.Values[i]); ok {
							consts[n.Name] = s
						}
					}
				}
			}
		}
	}
	return files, consts
}

func sortedKeys(m map[string]*ast.File) []string {
	var ks []string
	for k := range m {
		ks = append(ks, k)
	}
	sort.Strings(ks)
	return ks
}

func readChars() []charCtor {
	files, consts := parseDir("characteristic")
	var out []charCtor
	for _, fn := range sortedKeys(files) {
		for _, d := range files[fn].Decls {
			fd, ok := d.(*ast.FuncDecl)
			if !ok || fd.Recv != nil || !strings.HasPrefix(fd.Name.Name, "New") || fd.Type.Params.NumFields() != 0 || fd.Body == nil {
				continue
			}
			c := charCtor{name: fd.Name.Name, file: fn}
			recognised := false
			for _, st := range fd.Body.List {
				switch s := st.(type) {
				case *ast.AssignStmt:
					if len(s.Lhs) == 1 && len(s.Rhs) == 1 {
						lhs := exprString(s.Lhs[0])
						if call, ok := s.Rhs[0].(*ast.CallExpr); ok && lhs == "char" {
							f := exprString(call.Fun)
							if strings.HasPrefix(f, "New") && len(call.Args) == 1 {
								c.embedded = strings.TrimPrefix(f, "New")
								c.typeIdent = exprString(call.Args[0])
								c.typeValue = consts[c.typeIdent]
								recognised = true
							}
						}
						switch lhs {
						case "char.updateOnSameValue":
							c.updSame = exprString(s.Rhs[0]) == "true"
						case "char.Format":
							c.format = consts[exprString(s.Rhs[0])]
						case "char.Unit":
							c.unit = consts[exprString(s.Rhs[0])]
						case "char.Perms":
							if cl, ok := s.Rhs[0].(*ast.CompositeLit); ok {
								for _, e := range cl.Elts {
									c.perms = append(c.perms, consts[exprString(e)])
								}
							} else if call, ok := s.Rhs[0].(*ast.CallExpr); ok {
								switch exprString(call.Fun) {
								case "PermsAll":
									c.perms = []string{"pr", "pw", "ev"}
								case "PermsRead":
									c.perms = []string{"pr", "ev"}
								case "PermsReadOnly":
									c.perms = []string{"pr"}
								case "PermsWriteOnly":
									c.perms = []string{"pw"}
								default:
									complain("characteristic/%s:%s: unknown permission helper %s", fn, fd.Name.Name, exprString(call.Fun))
								}
							}
						}
					}
				case *ast.ExprStmt:
					if call, ok := s.X.(*ast.CallExpr); ok && len(call.Args) == 1 {
						n, isNum := numFromExpr(call.Args[0])
						switch exprString(call.Fun) {
						case "char.SetMinValue":
							c.min = n
						case "char.SetMaxValue":
							c.max = n
						case "char.SetStepValue":
							c.step = n
						case "char.SetValue":
							if isNum {
								c.def, c.defKind = n, "num"
							} else if id := exprString(call.Args[0]); id == "true" || id == "false" {
								c.defKind, c.defBool = "bool", id == "true"
							} else if _, ok := stringLit(call.Args[0]); ok {
								c.defKind = "string"
							} else if _, ok := call.Args[0].(*ast.CompositeLit); ok {
								c.defKind = "bytes"
							} else {
								c.defKind = "other"
							}
						}
					}
				}
			}
			if !recognised {
				continue // helper constructors (NewCharacteristic, NewInt, ...) take arguments and were skipped above; others are not catalog entries
			}
			// the Type constant declared for this constructor
			c.declIdent = "Type" + strings.TrimPrefix(fd.Name.Name, "New")
			c.declValue = consts[c.declIdent]
			out = append(out, c)
		}
	}
	return out
}

func readServices() []svcCtor {
	files, consts := parseDir("service")
	var out []svcCtor
	for _, fn := range sortedKeys(files) {
		for _, d := range files[fn].Decls {
			fd, ok := d.(*ast.FuncDecl)
			if !ok || fd.Recv != nil || !strings.HasPrefix(fd.Name.Name, "New") || fd.Type.Params.NumFields() != 0 || fd.Body == nil {
				continue
			}
			s := svcCtor{name: fd.Name.Name, file: fn}
			fields := map[string]string{}
			for _, st := range fd.Body.List {
				switch x := st.(type) {
				case *ast.AssignStmt:
					if len(x.Lhs) == 1 && len(x.Rhs) == 1 {
						lhs := exprString(x.Lhs[0])
						if call, ok := x.Rhs[0].(*ast.CallExpr); ok {
							f := exprString(call.Fun)
							if lhs == "svc.Service" && f == "New" && len(call.Args) == 1 {
								s.hasBase = true
								s.typeIdent = exprString(call.Args[0])
								s.typeValue = consts[s.typeIdent]
							} else if strings.HasPrefix(lhs, "svc.") && strings.HasPrefix(f, "characteristic.New") {
								fields[lhs] = strings.TrimPrefix(f, "characteristic.")
							} else if strings.HasPrefix(lhs, "svc.") && strings.HasPrefix(f, "New") && len(call.Args) == 0 {
								s.hasBase = true
								s.baseCtor = f
							}
						}
					}
				case *ast.ExprStmt:
					if call, ok := x.X.(*ast.CallExpr); ok && exprString(call.Fun) == "svc.AddCharacteristic" && len(call.Args) == 1 {
						arg := strings.TrimSuffix(exprString(call.Args[0]), ".Characteristic")
						if ctor, ok := fields[arg]; ok {
							s.chars = append(s.chars, ctor)
						} else {
							complain("service/%s:%s: AddCharacteristic(%s) of an unknown field", fn, fd.Name.Name, exprString(call.Args[0]))
						}
					}
				}
			}
			if !s.hasBase && len(s.chars) == 0 {
				continue
			}
			out = append(out, s)
		}
	}
	return out
}

type metaChar struct {
	UUID        string
	Name        string
	Format      string
	Unit        string
	Properties  []string
	Constraints struct {
		MinimumValue *float64
		MaximumValue *float64
		StepValue    *float64
		StepValue2   *float64 `json:"stepValue"`
	}
}

type metaSvc struct {
	UUID                    string
	Name                    string
	RequiredCharacteristics []string
	OptionalCharacteristics []string
}

func minify(uuid string) string {
	i := 0
	for i < len(uuid) && strings.ContainsRune("0123456789abcdefABCDEF", rune(uuid[i])) {
		i++
	}
	s := strings.TrimLeft(uuid[:i], "0")
	if i == 0 {
		return uuid
	}
	return s
}

func optNum(p *float64) numLit {
	if p == nil {
		return numLit{}
	}
	return numOf(*p, *p == math.Trunc(*p))
}

func genCatalog(dir string) {
	chars := readChars()
	svcs := readServices()
	var b strings.Builder
	b.WriteString("(** GENERATED by /verif/tools/translate from characteristic/*.go and service/*.go. Do not edit. *)\n")
	b.WriteString("From Coq Require Import List NArith ZArith Bool.\nImport ListNotations.\nOpen Scope N_scope.\n\n")
	b.WriteString("Definition num := (list N * Z * bool)%type.   (* canonical decimal text, value * 10^6, written as integer *)\n")
	b.WriteString("Record char_ctor := mkCC { cc_name : list N; cc_embedded : list N; cc_type_used : list N; cc_type_declared : list N;\n  cc_format : list N; cc_perms : list (list N); cc_min : option num; cc_max : option num; cc_step : option num;\n  cc_default : option num; cc_default_kind : list N; cc_unit : list N; cc_upd_same : bool }.\n")
	b.WriteString("Record svc_ctor := mkSC { sc_name : list N; sc_type : list N; sc_has_base : bool; sc_base_ctor : list N; sc_chars : list (list N) }.\n\n")
	b.WriteString("Definition char_ctors : list char_ctor := [\n")
	for i, c := range chars {
		sep := ";"
		if i == len(chars)-1 {
			sep = ""
		}
		fmt.Fprintf(&b, "  mkCC %s %s %s %s %s %s %s %s %s %s %s %s %v%s\n", coqBytes(c.name), coqBytes(c.embedded), coqBytes(c.typeValue), coqBytes(c.declValue),
			coqBytes(c.format), coqStrList(c.perms), c.min.coq(), c.max.coq(), c.step.coq(), c.def.coq(), coqBytes(c.defKind), coqBytes(c.unit), c.updSame, sep)
	}
	b.WriteString("].\n\nDefinition svc_ctors : list svc_ctor := [\n")
	for i, s := range svcs {
		sep := ";"
		if i == len(svcs)-1 {
			sep = ""
		}
		fmt.Fprintf(&b, "  mkSC %s %s %v %s %s%s\n", coqBytes(s.name), coqBytes(s.typeValue), s.hasBase, coqBytes(s.baseCtor), coqStrList(s.chars), sep)
	}
	b.WriteString("].\n")
	os.WriteFile(filepath.Join(dir, "CatalogGen.v"), []byte(b.String()), 0644)

	// metadata
	raw, err := ioutil.ReadFile(filepath.Join(*repo, "gen/metadata.json"))
	if err != nil {
		complain("cannot read gen/metadata.json: %v", err)
		return
	}
	var md struct {
		Characteristics []metaChar
		Services        []metaSvc
	}
	if err := json.Unmarshal(raw, &md); err != nil {
		complain("cannot parse gen/metadata.json: %v", err)
		return
	}
	var m strings.Builder
	m.WriteString("(** GENERATED by /verif/tools/translate from gen/metadata.json. Do not edit. *)\n")
	m.WriteString("From Coq Require Import List NArith ZArith Bool.\nFrom HC Require Import Gen.CatalogGen.\nImport ListNotations.\nOpen Scope N_scope.\n\n")
	m.WriteString("Record char_meta := mkCM { cm_name : list N; cm_type : list N; cm_format : list N; cm_read : bool; cm_write : bool; cm_notify : bool;\n  cm_unit : list N; cm_min : option num; cm_max : option num; cm_step : option num }.\n")
	m.WriteString("Record svc_meta := mkSM { sm_name : list N; sm_type : list N; sm_required : list (list N); sm_optional : list (list N) }.\n\n")
	m.WriteString("Definition meta_chars : list char_meta := [\n")
	has := func(l []string, x string) bool {
		for _, y := range l {
			if y == x {
				return true
			}
		}
		return false
	}
	for i, c := range md.Characteristics {
		sep := ";"
		if i == len(md.Characteristics)-1 {
			sep = ""
		}
		step := c.Constraints.StepValue
		if step == nil {
			step = c.Constraints.StepValue2
		}
		fmt.Fprintf(&m, "  mkCM %s %s %s %v %v %v %s %s %s %s%s\n", coqBytes(c.Name), coqBytes(minify(c.UUID)), coqBytes(c.Format),
			has(c.Properties, "read"), has(c.Properties, "write"), has(c.Properties, "cnotify"), coqBytes(c.Unit),
			optNum(c.Constraints.MinimumValue).coq(), optNum(c.Constraints.MaximumValue).coq(), optNum(step).coq(), sep)
	}
	m.WriteString("].\n\nDefinition meta_svcs : list svc_meta := [\n")
	for i, s := range md.Services {
		sep := ";"
		if i == len(md.Services)-1 {
			sep = ""
		}
		var req, opt []string
		for _, u := range s.RequiredCharacteristics {
			req = append(req, minify(u))
		}
		for _, u := range s.OptionalCharacteristics {
			opt = append(opt, minify(u))
		}
		fmt.Fprintf(&m, "  mkSM %s %s %s %s%s\n", coqBytes(s.Name), coqBytes(minify(s.UUID)), coqStrList(req), coqStrList(opt), sep)
	}
	m.WriteString("].\n")
	os.WriteFile(filepath.Join(dir, "MetadataGen.v"), []byte(m.String()), 0644)

	// registry for the Go harness: every zero-argument constructor, callable by name
	var r strings.Builder
	r.WriteString("// GENERATED by /verif/tools/translate. Do not edit.\n\npackage main\n\nimport (\n\t\"github.com/brutella/hc/characteristic\"\n\t\"github.com/brutella/hc/service\"\n)\n\n")
	r.WriteString("var charRegistry = map[string]func() *characteristic.Characteristic{\n")
	for _, c := range chars {
		fmt.Fprintf(&r, "\t%q: func() *characteristic.Characteristic { return characteristic.%s().Characteristic },\n", c.name, c.name)
	}
	r.WriteString("}\n\nvar svcRegistry = map[string]func() *service.Service{\n")
	for _, s := range svcs {
		fmt.Fprintf(&r, "\t%q: func() *service.Service { return service.%s().Service },\n", s.name, s.name)
	}
	r.WriteString("}\n")
	os.WriteFile(filepath.Join(dir, "catalog_registry.go.txt"), []byte(r.String()), 0644)
}
