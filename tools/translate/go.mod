module translate

go 1.13
