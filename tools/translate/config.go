package main

import (
	"go/ast"
	"go/token"
	"strconv"
	"strings"
)

// C20: setup codes, the X-HM payload layout, the persisted configuration keys, the pairing threshold

func init() { generators = append(generators, genConfig) }

func varStringList(f *ast.File, name string) ([]string, bool) {
	if f == nil {
		return nil, false
	}
	for _, d := range f.Decls {
		gd, ok := d.(*ast.GenDecl)
		if !ok {
			continue
		}
		for _, sp := range gd.Specs {
			vs, ok := sp.(*ast.ValueSpec)
			if !ok {
				continue
			}
			for i, n := range vs.Names {
				if n.Name != name || i >= len(vs.Values) {
					continue
				}
				cl, ok := vs.Values[i].(*ast.CompositeLit)
				if !ok {
					return nil, false
				}
				var out []string
				for _, e := range cl.Elts {
					s, ok := stringLit(e)
					if !ok {
						return nil, false
					}
					out = append(out, s)
				}
				return out, true
			}
		}
	}
	return nil, false
}

func coqByteLists(l []string) string {
	var p []string
	for _, s := range l {
		p = append(p, coqBytes(s))
	}
	return "[" + strings.Join(p, "; ") + "]"
}

func intLit(e ast.Expr) (uint64, bool) {
	if bl, ok := e.(*ast.BasicLit); ok && bl.Kind == token.INT {
		v, err := strconv.ParseUint(bl.Value, 0, 64)
		return v, err == nil
	}
	if p, ok := e.(*ast.ParenExpr); ok {
		return intLit(p.X)
	}
	return 0, false
}

func genConfig(o *out) {
	o.comment("password.go, util/xhmurl.go, config.go, ip_transport.go (C20)")
	pf := parseFile("password.go")
	if l, ok := varStringList(pf, "invalidPins"); ok {
		o.def("invalid_pins", "list (list N)", coqByteLists(l))
	} else {
		complain("password.go: var invalidPins is not a literal list of strings")
		o.def("invalid_pins", "list (list N)", "[]")
	}
	// ValidatePin: `len(pin) != K` and the digit range test
	pinLen := ""
	lo, hi := "", ""
	if fd := findFunc(pf, "ValidatePin"); fd != nil {
		ast.Inspect(fd.Body, func(n ast.Node) bool {
			be, ok := n.(*ast.BinaryExpr)
			if !ok {
				return true
			}
			if be.Op == token.NEQ && exprString(be.X) == "len(pin)" {
				pinLen = exprString(be.Y)
			}
			if be.Op == token.LSS && exprString(be.X) == "b" {
				lo = exprString(be.Y)
			}
			if be.Op == token.GTR && exprString(be.X) == "b" {
				hi = exprString(be.Y)
			}
			return true
		})
	}
	if _, err := strconv.Atoi(pinLen); err != nil {
		complain("password.go:ValidatePin: length test `len(pin) != <int>` not found")
		pinLen = "0"
	}
	o.def("pin_length", "nat", pinLen)
	if lo != "byte('0')" || hi != "byte('9')" {
		complain("password.go:ValidatePin: digit test `b < byte('0') || b > byte('9')` not found (got %q, %q)", lo, hi)
	}
	o.def("pin_digit_test", "bool", strconv.FormatBool(lo == "byte('0')" && hi == "byte('9')"))

	// X-HM payload: the sequence of `payload = payload << k` and the masks or-ed in, in source order
	xf := parseFile("util/xhmurl.go")
	var shifts, masks []string
	digits, base, prefix := "", "", ""
	if fd := findFunc(xf, "XHMURI"); fd != nil {
		ast.Inspect(fd.Body, func(n ast.Node) bool {
			switch x := n.(type) {
			case *ast.AssignStmt:
				if len(x.Lhs) == 1 && len(x.Rhs) == 1 && exprString(x.Lhs[0]) == "payload" {
					if be, ok := x.Rhs[0].(*ast.BinaryExpr); ok && exprString(be.X) == "payload" {
						switch be.Op {
						case token.SHL:
							if v, ok := intLit(be.Y); ok {
								shifts = append(shifts, strconv.FormatUint(v, 10))
							} else {
								complain("util/xhmurl.go: shift by a non-literal %s", exprString(be.Y))
							}
						case token.OR:
							// payload | (x & mask)   or   payload | x&mask   or   payload | uint64(categoryId)
							y := be.Y
							if p, ok := y.(*ast.ParenExpr); ok {
								y = p.X
							}
							if a, ok := y.(*ast.BinaryExpr); ok && a.Op == token.AND {
								if v, ok := intLit(a.Y); ok {
									masks = append(masks, exprString(a.X)+"&"+strconv.FormatUint(v, 10))
								} else {
									complain("util/xhmurl.go: mask is not a literal in %s", exprString(be))
								}
							} else {
								masks = append(masks, exprString(y))
							}
						case token.QUO:
							base = exprString(be.Y)
						}
					}
				}
			case *ast.ForStmt:
				if c, ok := x.Cond.(*ast.BinaryExpr); ok && c.Op == token.LSS {
					digits = exprString(c.Y)
				}
			case *ast.ReturnStmt:
				if len(x.Results) == 2 {
					if be, ok := x.Results[0].(*ast.BinaryExpr); ok {
						if b2, ok := be.X.(*ast.BinaryExpr); ok {
							if s, ok := stringLit(b2.X); ok {
								prefix = s
							}
						}
					}
				}
			}
			return true
		})
	} else {
		complain("util/xhmurl.go: func XHMURI not found")
	}
	o.def("xhm_shifts", "list N", "["+strings.Join(shifts, "; ")+"]")
	var ml []string
	for _, m := range masks {
		ml = append(ml, coqBytes(m))
	}
	o.def("xhm_fields", "list (list N)", "["+strings.Join(ml, "; ")+"]")
	if _, err := strconv.Atoi(digits); err != nil {
		complain("util/xhmurl.go: digit loop bound not found")
		digits = "0"
	}
	o.def("xhm_digits", "nat", digits)
	if _, err := strconv.Atoi(base); err != nil {
		complain("util/xhmurl.go: `payload = payload / <base>` not found")
		base = "0"
	}
	o.def("xhm_base", "N", base)
	o.def("xhm_prefix_src", "list N", coqBytes(prefix))
	if l, ok := varStringList(xf, "base36"); ok {
		o.def("xhm_alphabet", "list N", coqBytes(strings.Join(l, "")))
	} else {
		complain("util/xhmurl.go: var base36 is not a literal list of strings")
		o.def("xhm_alphabet", "list N", "[]")
	}

	// config.go: keys read by load and written by save, the start version, the bump rule
	cf := parseFile("config.go")
	keys := func(fn, callee string) []string {
		var l []string
		for _, a := range stringArgsOfCalls(findFunc(cf, fn), callee) {
			if len(a) > 0 {
				l = append(l, a[0])
			}
		}
		return l
	}
	o.def("cfg_load_keys", "list (list N)", coqByteLists(keys("load", "storage.Get")))
	o.def("cfg_save_keys", "list (list N)", coqByteLists(keys("save", "storage.Set")))
	ver := ""
	if fd := findFunc(cf, "defaultConfig"); fd != nil {
		ast.Inspect(fd.Body, func(n ast.Node) bool {
			if kv, ok := n.(*ast.KeyValueExpr); ok && exprString(kv.Key) == "version" {
				ver = exprString(kv.Value)
			}
			return true
		})
	}
	if _, err := strconv.Atoi(ver); err != nil {
		complain("config.go:defaultConfig: initial version is not an integer literal")
		ver = "0"
	}
	o.def("cfg_first_version", "N", ver)
	bump := ""
	if fd := findFunc(cf, "updateConfigHash"); fd != nil && len(fd.Body.List) == 2 {
		if is, ok := fd.Body.List[0].(*ast.IfStmt); ok && len(is.Body.List) == 1 && is.Else == nil {
			bump = exprString(is.Cond) + " => " + stmtString(is.Body.List[0])
		}
		bump += " ; " + stmtString(fd.Body.List[1])
	}
	want := "cfg.configHash!=nil&&reflect.DeepEqual(hash,cfg.configHash)==false => cfg.version+=1 ; cfg.configHash=hash"
	if bump != want {
		complain("config.go:updateConfigHash has an unrecognised shape: %q", bump)
	}
	o.def("cfg_bump_rule", "list N", coqBytes(bump))

	// ip_transport.go: isPaired compares the number of entities with a literal
	tf := parseFile("ip_transport.go")
	thr := ""
	if fd := findFunc(tf, "isPaired"); fd != nil {
		ast.Inspect(fd.Body, func(n ast.Node) bool {
			if be, ok := n.(*ast.BinaryExpr); ok && be.Op == token.GTR && exprString(be.X) == "len(es)" {
				thr = exprString(be.Y)
			}
			return true
		})
	}
	if _, err := strconv.Atoi(thr); err != nil {
		complain("ip_transport.go:isPaired: `len(es) > <int>` not found")
		thr = "0"
	}
	o.def("paired_threshold", "N", thr)

	// ip_transport.go: NewIPTransport, the order in which the stored configuration is read, the id is written, the device
	// (its entity) is created and the configuration is saved
	var steps []string
	if fd := findFunc(tf, "NewIPTransport"); fd != nil {
		ast.Inspect(fd.Body, func(n ast.Node) bool {
			ce, ok := n.(*ast.CallExpr)
			if !ok {
				return true
			}
			switch exprString(ce.Fun) {
			case "cfg.load":
				steps = append(steps, "load")
			case "cfg.save":
				steps = append(steps, "save")
			case "hap.NewSecuredDevice":
				steps = append(steps, "device")
			case "storage.Set":
				if len(ce.Args) > 0 {
					if bl, ok := ce.Args[0].(*ast.BasicLit); ok && bl.Value == `"uuid"` {
						steps = append(steps, "uuid")
					}
				}
			}
			return true
		})
	}
	if len(steps) == 0 {
		complain("ip_transport.go:NewIPTransport: no cfg.load / hap.NewSecuredDevice / cfg.save calls found")
	}
	o.def("transport_start_steps", "list (list N)", coqByteLists(steps))
}

func stmtString(s ast.Stmt) string {
	switch x := s.(type) {
	case *ast.AssignStmt:
		var l, r []string
		for _, e := range x.Lhs {
			l = append(l, exprString(e))
		}
		for _, e := range x.Rhs {
			r = append(r, exprString(e))
		}
		return strings.Join(l, ",") + x.Tok.String() + strings.Join(r, ",")
	case *ast.IncDecStmt:
		return exprString(x.X) + x.Tok.String()
	case *ast.ExprStmt:
		return exprString(x.X)
	}
	return "<stmt>"
}
