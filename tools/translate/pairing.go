package main

import (
	"fmt"
	"go/ast"
	"go/token"
	"strconv"
	"strings"
)

func init() { generators = append(generators, genPairing) }

// stringArgsOfCalls returns, for every call of callee inside fn, the string-literal arguments (resolved through
// []byte("..") conversions), in source order
func stringArgsOfCalls(fd *ast.FuncDecl, callee string) [][]string {
	var out [][]string
	if fd == nil {
		return out
	}
	ast.Inspect(fd.Body, func(n ast.Node) bool {
		c, ok := n.(*ast.CallExpr)
		if !ok || exprString(c.Fun) != callee {
			return true
		}
		var args []string
		for _, a := range c.Args {
			if s, ok := stringLit(a); ok {
				args = append(args, s)
			}
		}
		out = append(out, args)
		return true
	})
	return out
}

// materialAppends returns, per `material` build-up inside fn, the expressions appended, in order.
// A new group starts at every `material = make(...)` / `var material []byte`.
func materialAppends(fd *ast.FuncDecl) [][]string {
	var groups [][]string
	if fd == nil {
		return groups
	}
	ast.Inspect(fd.Body, func(n ast.Node) bool {
		switch x := n.(type) {
		case *ast.DeclStmt:
			if gd, ok := x.Decl.(*ast.GenDecl); ok {
				for _, sp := range gd.Specs {
					if vs, ok := sp.(*ast.ValueSpec); ok {
						for _, nm := range vs.Names {
							if nm.Name == "material" {
								groups = append(groups, nil)
							}
						}
					}
				}
			}
		case *ast.AssignStmt:
			if len(x.Lhs) == 1 && exprString(x.Lhs[0]) == "material" && len(x.Rhs) == 1 {
				if c, ok := x.Rhs[0].(*ast.CallExpr); ok {
					switch exprString(c.Fun) {
					case "make":
						groups = append(groups, nil)
					case "append":
						if len(c.Args) == 2 && exprString(c.Args[0]) == "material" && len(groups) > 0 {
							groups[len(groups)-1] = append(groups[len(groups)-1], exprString(c.Args[1]))
						}
					}
				}
			}
		}
		return true
	})
	return groups
}

func coqStrList(l []string) string {
	var parts []string
	for _, s := range l {
		parts = append(parts, coqBytes(s))
	}
	return "[" + strings.Join(parts, "; ") + "]"
}

func byteConsts(f *ast.File, o *out, prefix string, names []string) {
	for _, name := range names {
		found := false
		for _, d := range f.Decls {
			gd, ok := d.(*ast.GenDecl)
			if !ok || gd.Tok != token.CONST {
				continue
			}
			for _, sp := range gd.Specs {
				vs := sp.(*ast.ValueSpec)
				for i, n := range vs.Names {
					if n.Name == name && i < len(vs.Values) {
						if bl, ok := vs.Values[i].(*ast.BasicLit); ok && bl.Kind == token.INT {
							v, _ := strconv.ParseInt(bl.Value, 0, 64)
							o.def(prefix+name, "N", fmt.Sprint(v))
							found = true
						}
					}
				}
			}
		}
		if !found {
			complain("constant %s not found as an integer literal", name)
		}
	}
}

func genPairing(o *out) {
	o.comment("hap/pair: labels, nonces, signature material order, tags")
	sf := parseFile("hap/pair/setup_server_controller.go")
	hv := findFunc(sf, "handlePairVerify")
	hk := findFunc(sf, "handleKeyExchange")
	if a := stringArgsOfCalls(hv, "setup.session.SetupEncryptionKey"); len(a) == 1 && len(a[0]) == 2 {
		o.def("ps_enc_salt", "list N", coqBytes(a[0][0]))
		o.def("ps_enc_info", "list N", coqBytes(a[0][1]))
	} else {
		complain("setup_server_controller.go:handlePairVerify: SetupEncryptionKey(salt, info) with two literals not found")
	}
	if a := stringArgsOfCalls(hk, "chacha20poly1305.DecryptAndVerify"); len(a) == 1 && len(a[0]) == 1 {
		o.def("ps_m5_nonce", "list N", coqBytes(a[0][0]))
	} else {
		complain("setup_server_controller.go:handleKeyExchange: DecryptAndVerify nonce literal not found")
	}
	if a := stringArgsOfCalls(hk, "chacha20poly1305.EncryptAndSeal"); len(a) == 1 && len(a[0]) == 1 {
		o.def("ps_m6_nonce", "list N", coqBytes(a[0][0]))
	} else {
		complain("setup_server_controller.go:handleKeyExchange: EncryptAndSeal nonce literal not found")
	}
	if a := stringArgsOfCalls(hk, "hkdf.Sha512"); len(a) == 2 && len(a[0]) == 2 && len(a[1]) == 2 {
		o.def("ps_ctrl_sign", "list (list N)", coqStrList(a[0]))
		o.def("ps_acc_sign", "list (list N)", coqStrList(a[1]))
	} else {
		complain("setup_server_controller.go:handleKeyExchange: two hkdf.Sha512(.., salt, info) calls with literals not found")
	}
	if g := materialAppends(hk); len(g) == 2 {
		o.def("ps_ctrl_material", "list (list N)", coqStrList(g[0]))
		o.def("ps_acc_material", "list (list N)", coqStrList(g[1]))
	} else {
		complain("setup_server_controller.go:handleKeyExchange: expected two signature material build-ups, found %d", len(g))
	}
	vf := parseFile("hap/pair/verify_server_controller.go")
	vs := findFunc(vf, "handlePairVerifyStart")
	vfin := findFunc(vf, "handlePairVerifyFinish")
	if a := stringArgsOfCalls(vs, "verify.session.SetupEncryptionKey"); len(a) == 1 && len(a[0]) == 2 {
		o.def("pv_enc_salt", "list N", coqBytes(a[0][0]))
		o.def("pv_enc_info", "list N", coqBytes(a[0][1]))
	} else {
		complain("verify_server_controller.go:handlePairVerifyStart: SetupEncryptionKey literals not found")
	}
	if a := stringArgsOfCalls(vs, "chacha20poly1305.EncryptAndSeal"); len(a) == 1 && len(a[0]) == 1 {
		o.def("pv_m2_nonce", "list N", coqBytes(a[0][0]))
	} else {
		complain("verify_server_controller.go:handlePairVerifyStart: EncryptAndSeal nonce literal not found")
	}
	if a := stringArgsOfCalls(vfin, "chacha20poly1305.DecryptAndVerify"); len(a) == 1 && len(a[0]) == 1 {
		o.def("pv_m3_nonce", "list N", coqBytes(a[0][0]))
	} else {
		complain("verify_server_controller.go:handlePairVerifyFinish: DecryptAndVerify nonce literal not found")
	}
	if g := materialAppends(vs); len(g) == 1 {
		o.def("pv_acc_material", "list (list N)", coqStrList(g[0]))
	} else {
		complain("verify_server_controller.go:handlePairVerifyStart: signature material build-up not found")
	}
	if g := materialAppends(vfin); len(g) == 1 {
		o.def("pv_ctrl_material", "list (list N)", coqStrList(g[0]))
	} else {
		complain("verify_server_controller.go:handlePairVerifyFinish: signature material build-up not found")
	}
	tf := parseFile("hap/pair/tag_types.go")
	if tf != nil {
		byteConsts(tf, o, "tag_", []string{"TagPairingMethod", "TagUsername", "TagSalt", "TagPublicKey", "TagProof", "TagEncryptedData", "TagSequence", "TagErrCode", "TagSignature", "TagPermission"})
	}
	// SRP parameters
	srpf := parseFile("hap/pair/srp.go")
	grp := ""
	if srpf != nil {
		for _, d := range srpf.Decls {
			if gd, ok := d.(*ast.GenDecl); ok && gd.Tok == token.CONST {
				for _, sp := range gd.Specs {
					vs := sp.(*ast.ValueSpec)
					for i, n := range vs.Names {
						if n.Name == "SRPGroup" && i < len(vs.Values) {
							grp, _ = stringLit(vs.Values[i])
						}
					}
				}
			}
		}
	}
	if grp == "" {
		complain("hap/pair/srp.go: SRPGroup not found")
	}
	o.def("srp_group", "list N", coqBytes(grp))
	ssf := parseFile("hap/pair/setup_server_session.go")
	if fd := findFunc(ssf, "NewSetupServerSession"); fd != nil {
		loc := localStrings(fd)
		o.def("srp_username", "list N", coqBytes(loc["pairName"]))
		hash := ""
		ast.Inspect(fd.Body, func(n ast.Node) bool {
			if c, ok := n.(*ast.CallExpr); ok && exprString(c.Fun) == "srp.NewSRP" && len(c.Args) == 3 {
				hash = exprString(c.Args[1])
			}
			return true
		})
		o.def("srp_hash", "list N", coqBytes(hash))
	} else {
		complain("setup_server_session.go: NewSetupServerSession not found")
	}
	// endpoint protection table: which paths are wrapped in Authenticate
	hs := parseFile("hap/http/server.go")
	var prot, open []string
	collect := func(fd *ast.FuncDecl, mux string) {
		if fd == nil {
			return
		}
		ast.Inspect(fd.Body, func(n ast.Node) bool {
			c, ok := n.(*ast.CallExpr)
			if !ok {
				return true
			}
			f := exprString(c.Fun)
			if (f == mux+".Handle" || f == mux+".HandleFunc") && len(c.Args) == 2 {
				path, _ := stringLit(c.Args[0])
				h := exprString(c.Args[1])
				if strings.Contains(h, "Authenticate(") {
					prot = append(prot, path)
				} else {
					open = append(open, path)
				}
			}
			return true
		})
	}
	collect(findFunc(hs, "setupEndpoints"), "s.Mux")
	collect(findFunc(parseFile("ip_transport.go"), "Start"), "t.server.Mux")
	o.def("mux_protected", "list (list N)", coqStrList(prot))
	o.def("mux_open", "list (list N)", coqStrList(open))
	// Authenticate: refuses unless the session has an encrypter, and returns
	af := findFunc(parseFile("hap/http/characteristics.go"), "Authenticate")
	checksCrypt, returns := false, false
	if af != nil {
		ast.Inspect(af.Body, func(n ast.Node) bool {
			if is, ok := n.(*ast.IfStmt); ok {
				cond := exprString(is.Cond)
				if strings.Contains(cond, "sess.Encrypter()==nil") || strings.Contains(cond, "sess.Decrypter()==nil") {
					checksCrypt = true
					for _, st := range is.Body.List {
						if _, ok := st.(*ast.ReturnStmt); ok {
							returns = true
						}
					}
				}
			}
			return true
		})
	}
	o.def("auth_checks_cryptographer", "bool", fmt.Sprint(checksCrypt))
	o.def("auth_returns_after_refusal", "bool", fmt.Sprint(returns))
	// chunk size of the JSON writer
	jf := findFunc(parseFile("hap/http/json.go"), "WriteJSON")
	chunk := ""
	if jf != nil {
		ast.Inspect(jf.Body, func(n ast.Node) bool {
			if c, ok := n.(*ast.CallExpr); ok && exprString(c.Fun) == "hap.NewChunkedWriter" && len(c.Args) == 2 {
				chunk = exprString(c.Args[1])
			}
			return true
		})
	}
	if _, err := strconv.Atoi(chunk); err != nil {
		complain("hap/http/json.go:WriteJSON: chunk size literal not found")
		chunk = "0"
	}
	o.def("json_chunk_size", "nat", chunk)
}

func init() { generators = append(generators, genJSONTags) }

// jsonTags lists "Field=tag" for the fields of a struct type, in declaration order
func jsonTags(f *ast.File, typeName string) []string {
	var out []string
	if f == nil {
		return out
	}
	for _, d := range f.Decls {
		gd, ok := d.(*ast.GenDecl)
		if !ok || gd.Tok != token.TYPE {
			continue
		}
		for _, sp := range gd.Specs {
			ts := sp.(*ast.TypeSpec)
			st, ok := ts.Type.(*ast.StructType)
			if !ok || ts.Name.Name != typeName {
				continue
			}
			for _, fld := range st.Fields.List {
				if fld.Tag == nil || len(fld.Names) == 0 {
					continue
				}
				raw, _ := strconv.Unquote(fld.Tag.Value)
				i := strings.Index(raw, `json:"`)
				if i < 0 {
					continue
				}
				rest := raw[i+6:]
				tag := rest[:strings.Index(rest, `"`)]
				out = append(out, fld.Names[0].Name+"="+tag)
			}
		}
	}
	return out
}

func genJSONTags(o *out) {
	o.comment("JSON field tags of the attribute database")
	o.def("json_characteristic", "list (list N)", coqStrList(jsonTags(parseFile("characteristic/characteristic.go"), "Characteristic")))
	o.def("json_service", "list (list N)", coqStrList(jsonTags(parseFile("service/service.go"), "servicePayload")))
	o.def("json_accessory", "list (list N)", coqStrList(jsonTags(parseFile("accessory/accessory.go"), "Accessory")))
	o.def("json_container", "list (list N)", coqStrList(jsonTags(parseFile("accessory/container.go"), "Container")))
}
