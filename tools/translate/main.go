// translate regenerates the data part of the Coq model (coq/Gen/*.v) from the Go sources of
// brutella/hc, using go/parser only (no type checking, no dependency loading).
// A syntactic shape it does not recognise is reported on stdout as "TRANSLATOR: ..." and the
// exit status is non-zero; nothing is silently skipped.
package main

import (
	"flag"
	"fmt"
	"go/ast"
	"go/parser"
	"go/token"
	"os"
	"path/filepath"
	"sort"
	"strconv"
	"strings"
)

var (
	repo       = flag.String("repo", "/repo", "path of brutella/hc")
	outDir     = flag.String("out", ".", "output directory for the generated .v files")
	complaints []string
	fset       = token.NewFileSet()
)

func complain(f string, a ...interface{}) {
	complaints = append(complaints, fmt.Sprintf(f, a...))
}

func parseFile(rel string) *ast.File {
	f, err := parser.ParseFile(fset, filepath.Join(*repo, rel), nil, parser.ParseComments)
	if err != nil {
		complain("cannot parse %s: %v", rel, err)
		return nil
	}
	return f
}

func findFunc(f *ast.File, name string) *ast.FuncDecl {
	if f == nil {
		return nil
	}
	for _, d := range f.Decls {
		if fd, ok := d.(*ast.FuncDecl); ok && fd.Name.Name == name {
			return fd
		}
	}
	return nil
}

// coqBytes renders a Go string as a Coq list of N
func coqBytes(s string) string {
	var parts []string
	for _, b := range []byte(s) {
		parts = append(parts, strconv.Itoa(int(b)))
	}
	return "[" + strings.Join(parts, "; ") + "]"
}

// stringLit returns the value of a string literal expression, looking through []byte("..") conversions
func stringLit(e ast.Expr) (string, bool) {
	switch x := e.(type) {
	case *ast.BasicLit:
		if x.Kind == token.STRING {
			s, err := strconv.Unquote(x.Value)
			return s, err == nil
		}
	case *ast.CallExpr:
		if len(x.Args) == 1 {
			if at, ok := x.Fun.(*ast.ArrayType); ok && at.Len == nil {
				if id, ok := at.Elt.(*ast.Ident); ok && id.Name == "byte" {
					return stringLit(x.Args[0])
				}
			}
		}
	case *ast.ParenExpr:
		return stringLit(x.X)
	}
	return "", false
}

// localStrings maps identifiers assigned a string / []byte literal inside a function body
func localStrings(fd *ast.FuncDecl) map[string]string {
	m := map[string]string{}
	if fd == nil || fd.Body == nil {
		return m
	}
	ast.Inspect(fd.Body, func(n ast.Node) bool {
		if as, ok := n.(*ast.AssignStmt); ok && len(as.Lhs) == len(as.Rhs) {
			for i, l := range as.Lhs {
				if id, ok := l.(*ast.Ident); ok {
					if s, ok := stringLit(as.Rhs[i]); ok {
						m[id.Name] = s
					}
				}
			}
		}
		return true
	})
	return m
}

func exprString(e ast.Expr) string {
	switch x := e.(type) {
	case *ast.Ident:
		return x.Name
	case *ast.SelectorExpr:
		return exprString(x.X) + "." + x.Sel.Name
	case *ast.BasicLit:
		return x.Value
	case *ast.CallExpr:
		var a []string
		for _, y := range x.Args {
			a = append(a, exprString(y))
		}
		return exprString(x.Fun) + "(" + strings.Join(a, ",") + ")"
	case *ast.SliceExpr:
		return exprString(x.X) + "[:]"
	case *ast.IndexExpr:
		return exprString(x.X) + "[" + exprString(x.Index) + "]"
	case *ast.UnaryExpr:
		return x.Op.String() + exprString(x.X)
	case *ast.BinaryExpr:
		return exprString(x.X) + x.Op.String() + exprString(x.Y)
	case *ast.StarExpr:
		return "*" + exprString(x.X)
	case *ast.ParenExpr:
		return "(" + exprString(x.X) + ")"
	case *ast.ArrayType:
		return "[]" + exprString(x.Elt)
	case *ast.CompositeLit:
		var a []string
		for _, y := range x.Elts {
			a = append(a, exprString(y))
		}
		return exprString(x.Type) + "{" + strings.Join(a, ",") + "}"
	case *ast.KeyValueExpr:
		return exprString(x.Key) + ":" + exprString(x.Value)
	case *ast.FuncLit:
		return "func"
	case nil:
		return ""
	}
	return fmt.Sprintf("<%T>", e)
}

// resolve a call argument to a string: literal or local identifier bound to a literal
func resolveString(e ast.Expr, locals map[string]string) (string, bool) {
	if s, ok := stringLit(e); ok {
		return s, true
	}
	if id, ok := e.(*ast.Ident); ok {
		s, ok := locals[id.Name]
		return s, ok
	}
	if se, ok := e.(*ast.SliceExpr); ok {
		return resolveString(se.X, locals)
	}
	return "", false
}

type out struct{ b strings.Builder }

func (o *out) def(name, typ, val string) { fmt.Fprintf(&o.b, "Definition %s : %s := %s.\n", name, typ, val) }
func (o *out) comment(s string)          { fmt.Fprintf(&o.b, "(* %s *)\n", s) }

func intConst(f *ast.File, name string) (int64, bool) {
	if f == nil {
		return 0, false
	}
	for _, d := range f.Decls {
		gd, ok := d.(*ast.GenDecl)
		if !ok {
			continue
		}
		for _, sp := range gd.Specs {
			vs, ok := sp.(*ast.ValueSpec)
			if !ok {
				continue
			}
			for i, n := range vs.Names {
				if n.Name == name && i < len(vs.Values) {
					if bl, ok := vs.Values[i].(*ast.BasicLit); ok && bl.Kind == token.INT {
						v, err := strconv.ParseInt(bl.Value, 0, 64)
						return v, err == nil
					}
				}
			}
		}
	}
	return 0, false
}

// sessionLabels extracts (salt, info feeding encryptKey, info feeding decryptKey) from a constructor
func sessionLabels(f *ast.File, fn string) (salt, enc, dec string, ok bool) {
	fd := findFunc(f, fn)
	if fd == nil {
		complain("crypto/secure_session.go: func %s not found", fn)
		return
	}
	loc := localStrings(fd)
	found := 0
	ast.Inspect(fd.Body, func(n ast.Node) bool {
		as, isAs := n.(*ast.AssignStmt)
		if !isAs || len(as.Rhs) != 1 || len(as.Lhs) < 1 {
			return true
		}
		call, isCall := as.Rhs[0].(*ast.CallExpr)
		if !isCall || exprString(call.Fun) != "hkdf.Sha512" || len(call.Args) != 3 {
			return true
		}
		target := exprString(as.Lhs[0])
		s, ok1 := resolveString(call.Args[1], loc)
		i, ok2 := resolveString(call.Args[2], loc)
		if !ok1 || !ok2 || exprString(call.Args[0]) != "sharedKey[:]" {
			complain("crypto/secure_session.go:%s: hkdf.Sha512 call with unrecognised arguments %s", fn, exprString(call))
			return true
		}
		switch target {
		case "s.encryptKey":
			salt, enc = s, i
			found++
		case "s.decryptKey":
			if salt != "" && salt != s {
				complain("crypto/secure_session.go:%s: different salts for the two keys", fn)
			}
			salt, dec = s, i
			found++
		default:
			complain("crypto/secure_session.go:%s: hkdf result assigned to %s", fn, target)
		}
		return true
	})
	if found != 2 {
		complain("crypto/secure_session.go:%s: expected two hkdf.Sha512 derivations, found %d", fn, found)
		return
	}
	ok = true
	return
}

func genCrypto(o *out) {
	o.comment("crypto/packet.go, crypto/secure_session.go, crypto/chacha20poly1305")
	pf := parseFile("crypto/packet.go")
	if v, ok := intConst(pf, "PacketLengthMax"); ok {
		o.def("packet_length_max", "nat", strconv.FormatInt(v, 10))
	} else {
		complain("crypto/packet.go: constant PacketLengthMax not found as an integer literal")
	}
	// which length packetsFromBytes passes on
	if fd := findFunc(pf, "packetsFromBytes"); fd != nil {
		arg := ""
		ast.Inspect(fd.Body, func(n ast.Node) bool {
			if c, ok := n.(*ast.CallExpr); ok && exprString(c.Fun) == "packetsWithSizeFromBytes" && len(c.Args) == 2 {
				arg = exprString(c.Args[0])
			}
			return true
		})
		if arg != "PacketLengthMax" {
			complain("crypto/packet.go: packetsFromBytes does not pass PacketLengthMax (got %q)", arg)
		}
	} else {
		complain("crypto/packet.go: packetsFromBytes not found")
	}
	sf := parseFile("crypto/secure_session.go")
	if salt, enc, dec, ok := sessionLabels(sf, "NewSecureSessionFromSharedKey"); ok {
		o.def("srv_salt", "list N", coqBytes(salt))
		o.def("srv_enc_info", "list N", coqBytes(enc))
		o.def("srv_dec_info", "list N", coqBytes(dec))
	}
	if salt, enc, dec, ok := sessionLabels(sf, "NewSecureClientSessionFromSharedKey"); ok {
		o.def("cli_salt", "list N", coqBytes(salt))
		o.def("cli_enc_info", "list N", coqBytes(enc))
		o.def("cli_dec_info", "list N", coqBytes(dec))
	}
	// Decrypt: the short-frame test must compare with PacketLengthMax
	if fd := findFunc(sf, "Decrypt"); fd != nil {
		seen := false
		ast.Inspect(fd.Body, func(n ast.Node) bool {
			if be, ok := n.(*ast.BinaryExpr); ok && be.Op == token.LSS && exprString(be.Y) == "PacketLengthMax" && exprString(be.X) == "length" {
				seen = true
			}
			return true
		})
		if !seen {
			complain("crypto/secure_session.go:Decrypt: loop exit test `length < PacketLengthMax` not found")
		}
	}
	// nonce placement in the AEAD wrapper: copy(Nonce[4:], nonce) in both functions, Nonce is [12]byte
	cf := parseFile("crypto/chacha20poly1305/chacha20_poly1305.go")
	for _, fn := range []string{"DecryptAndVerify", "EncryptAndSeal"} {
		fd := findFunc(cf, fn)
		if fd == nil {
			complain("chacha20_poly1305.go: %s not found", fn)
			continue
		}
		off := ""
		ast.Inspect(fd.Body, func(n ast.Node) bool {
			if c, ok := n.(*ast.CallExpr); ok && exprString(c.Fun) == "copy" && len(c.Args) == 2 && exprString(c.Args[1]) == "nonce" {
				if se, ok := c.Args[0].(*ast.SliceExpr); ok && exprString(se.X) == "Nonce" && se.High == nil {
					off = exprString(se.Low)
				}
			}
			return true
		})
		if off == "" {
			complain("chacha20_poly1305.go:%s: copy(Nonce[k:], nonce) not found", fn)
			off = "0"
		}
		o.def("nonce_offset_"+fn, "nat", off)
	}
}

func main() {
	flag.Parse()
	var o out
	o.b.WriteString("(** GENERATED by /verif/tools/translate from /repo's working tree. Do not edit. *)\n")
	o.b.WriteString("From Coq Require Import List NArith ZArith.\nImport ListNotations.\nOpen Scope N_scope.\n\n")
	genCrypto(&o)
	for _, g := range generators {
		g(&o)
	}
	if err := os.WriteFile(filepath.Join(*outDir, "Extracted.v"), []byte(o.b.String()), 0644); err != nil {
		fmt.Println("TRANSLATOR: cannot write output:", err)
		os.Exit(2)
	}
	for _, e := range extraFiles {
		e(*outDir)
	}
	sort.Strings(complaints)
	for _, c := range complaints {
		fmt.Println("TRANSLATOR:", c)
	}
	if len(complaints) > 0 {
		os.Exit(1)
	}
}

// further generators register themselves here (other files of this package)
var generators []func(*out)
var extraFiles []func(dir string)
