#!/usr/bin/env python3
"""Re-run the checks against stored seeded changes, several at a time, each in an isolated copy:
  /tmp/sp/<seed>/verif  = copy of /verif (without .git / replays)
  /tmp/sp/<seed>/repo   = git worktree of /repo at HEAD with seeded/<seed>/patch.diff applied
The check runs with VERIF_REPO pointing at the copy, so /repo and /verif/build are never touched.
Only `detected_by` in seeded/<seed>/meta.json is rewritten.  Development tool, not a registered command.

usage: seedpar.py [-j N] [--checks Cxx,Cyy] [seed-id ...]     (no ids = every stored seed)"""
import json, os, re, shutil, subprocess, sys, time
from concurrent.futures import ThreadPoolExecutor

V = os.path.dirname(os.path.dirname(os.path.abspath(__file__)))
BASE = "/tmp/sp"
EXTRA = {"C18-4": ["C18", "C19"], "C06-12": ["C06", "C07"], "C20-10": ["C20", "C19"], "C10-7": ["C10", "C08"], "C13-14": ["C13", "C05"], "C18-13": ["C18", "C20"], "C18-14": ["C18", "C19"]}


def sh(cmd, **kw):
    p = subprocess.run(cmd, shell=True, stdout=subprocess.PIPE, stderr=subprocess.STDOUT, **kw)
    return p.returncode, p.stdout.decode("utf-8", "replace")


def one(seed, checks):
    base = os.path.join(BASE, seed)
    repo = os.path.join(base, "repo")
    ver = os.path.join(base, "verif")
    sh("git -C /repo worktree remove --force %s" % repo)
    shutil.rmtree(base, ignore_errors=True)
    os.makedirs(base)
    det = {}
    try:
        rc, o = sh("rsync -a --exclude .git --exclude replays --exclude seeded %s/ %s/" % (V, ver))
        assert rc == 0, o
        rc, o = sh("git -C /repo worktree add --detach %s HEAD" % repo)
        assert rc == 0, o
        rc, o = (0, "") if seed.startswith("CLEAN") else sh("git -C %s apply %s" % (repo, os.path.join(V, "seeded", seed, "patch.diff")))
        if rc != 0:
            # written against an earlier HEAD (before later fix: commits): merge it
            rc, o = sh("git -C %s apply --3way %s" % (repo, os.path.join(V, "seeded", seed, "patch.diff")))
        assert rc == 0, "%s: %s" % (seed, o)
        gm = os.path.join(ver, "harness", "go.mod")
        s = open(gm).read().replace("=> /repo", "=> " + repo)
        open(gm, "w").write(s)
        env = dict(os.environ, VERIF_REPO=repo)
        for c in checks:
            t0 = time.time()
            rc, o = sh("python3 tools/check.py %s --tier quick" % c, cwd=ver, env=env, timeout=3600)
            lines = [l for l in o.splitlines() if l.startswith("VIOLATION") or l.startswith("KNOWN-FINDING")]
            rep = None
            for l in lines:
                mm = re.search(r"replay=(\S+)", l)
                if mm and os.path.exists(mm.group(1)):
                    rep = json.load(open(mm.group(1)))
                    break
            det[c] = {"exit": rc, "lines": [l.replace(ver, V) for l in lines], "wall_s": round(time.time() - t0, 1),
                      "replay_required": (rep or {}).get("required") or (rep or {}).get("no_longer_checks"),
                      "replay_case": ((rep or {}).get("case") or "")[:300]}
            if rc not in (0, 1) or (rc == 1 and not lines):
                det[c]["output_tail"] = o[-600:]
    finally:
        sh("git -C /repo worktree remove --force %s" % repo)
        shutil.rmtree(base, ignore_errors=True)
    if NOSTORE or seed.startswith(("CLEAN", "_revert")):
        return seed, {c: (d["exit"], str(d["replay_required"])[:110]) for c, d in det.items()}
    mp = os.path.join(V, "seeded", seed, "meta.json")
    meta = json.load(open(mp))
    old = meta.get("detected_by", {})
    old.update(det)
    meta["detected_by"] = old
    meta["what_i_ran"] = (meta.get("what_i_ran") or [""])[:1] + [
        "isolated copy of /verif + worktree of /repo with the patch applied: " +
        "; ".join("VERIF_REPO=<worktree> python3 tools/check.py %s --tier quick" % c for c in checks)]
    json.dump(meta, open(mp, "w"), indent=1)
    return seed, {c: (d["exit"], str(d["replay_required"])[:110]) for c, d in det.items()}


NOSTORE = False


def main():
    global NOSTORE
    args = sys.argv[1:]
    if "--no-store" in args:
        args.remove("--no-store")
        NOSTORE = True
    j = 4
    checks = None
    ids = []
    while args:
        a = args.pop(0)
        if a == "-j":
            j = int(args.pop(0))
        elif a == "--checks":
            checks = args.pop(0).split(",")
        else:
            ids.append(a)
    if not ids:
        ids = sorted(d for d in os.listdir(os.path.join(V, "seeded")) if re.match(r"C\d\d-\d+$", d))
    os.makedirs(BASE, exist_ok=True)
    bad = 0
    with ThreadPoolExecutor(j) as ex:
        futs = [ex.submit(one, s, checks or EXTRA.get(s) or [s.split("-")[1 if s.startswith(("CLEAN-", "_revert-")) else 0]]) for s in ids]     # CLEAN-<x>: the unchanged tree, needs --checks
        for f in futs:
            try:
                seed, r = f.result()
                own = seed.split("-")[0]
                hit = any(v[0] == 1 for v in r.values())
                obsolete = False
                mp = os.path.join(V, "seeded", seed, "meta.json")
                if os.path.exists(mp):
                    obsolete = bool(json.load(open(mp)).get("obsolete_since"))
                # obsolete: a later repair in /repo removed what the change needed to break the property; reporting nothing is right
                print(seed, "DETECTED" if hit else ("OBSOLETE-AND-QUIET" if obsolete else "MISSED"), r, flush=True)
                bad += 0 if (hit or obsolete) else 1
            except Exception as e:
                print("ERROR", e, flush=True)
                bad += 1
    return 1 if bad else 0


if __name__ == "__main__":
    sys.exit(main())
